//go:build verif

// Contracts for package server, checked by /verif/govc. Comment-only; compiled only under the build tag "verif".
package server

//@ func (*Server).WriteAssertions(s, ctx, req) (res, err)
//@   property C26
//@   option nosafety
//@   option stable req
//@   monitor authzBeforeData
//@     ghost authzOK = false
//@     after call (*server.Server).checkAuthz args _, _, st, m returning e : authzOK = authzOK || (e == nil && st == req.GetStoreId() && m == "WriteAssertions")
//@     before call (*commands.*).Execute* | (*commands.*).ListUsers | listusers.*.ListUsers | (*listusers.*).ListUsers | storage.*.* | (*server.Server).resolveTypesystem | (*server.Server).v2Check | (*server.Server).shadowV2Check : assert authzOK

//@ func (*Server).ReadAssertions(s, ctx, req) (res, err)
//@   property C26
//@   option nosafety
//@   option stable req
//@   monitor authzBeforeData
//@     ghost authzOK = false
//@     after call (*server.Server).checkAuthz args _, _, st, m returning e : authzOK = authzOK || (e == nil && st == req.GetStoreId() && m == "ReadAssertions")
//@     before call (*commands.*).Execute* | (*commands.*).ListUsers | listusers.*.ListUsers | (*listusers.*).ListUsers | storage.*.* | (*server.Server).resolveTypesystem | (*server.Server).v2Check | (*server.Server).shadowV2Check : assert authzOK

//@ func (*Server).ReadAuthorizationModel(s, ctx, req) (res, err)
//@   property C26
//@   option nosafety
//@   option stable req
//@   monitor authzBeforeData
//@     ghost authzOK = false
//@     after call (*server.Server).checkAuthz args _, _, st, m returning e : authzOK = authzOK || (e == nil && st == req.GetStoreId() && m == "ReadAuthorizationModel")
//@     before call (*commands.*).Execute* | (*commands.*).ListUsers | listusers.*.ListUsers | (*listusers.*).ListUsers | storage.*.* | (*server.Server).resolveTypesystem | (*server.Server).v2Check | (*server.Server).shadowV2Check : assert authzOK

//@ func (*Server).WriteAuthorizationModel(s, ctx, req) (res, err)
//@   property C26
//@   option nosafety
//@   option stable req
//@   monitor authzBeforeData
//@     ghost authzOK = false
//@     after call (*server.Server).checkAuthz args _, _, st, m returning e : authzOK = authzOK || (e == nil && st == req.GetStoreId() && m == "WriteAuthorizationModel")
//@     before call (*commands.*).Execute* | (*commands.*).ListUsers | listusers.*.ListUsers | (*listusers.*).ListUsers | storage.*.* | (*server.Server).resolveTypesystem | (*server.Server).v2Check | (*server.Server).shadowV2Check : assert authzOK

//@ func (*Server).ReadAuthorizationModels(s, ctx, req) (res, err)
//@   property C26
//@   option nosafety
//@   option stable req
//@   monitor authzBeforeData
//@     ghost authzOK = false
//@     after call (*server.Server).checkAuthz args _, _, st, m returning e : authzOK = authzOK || (e == nil && st == req.GetStoreId() && m == "ReadAuthorizationModels")
//@     before call (*commands.*).Execute* | (*commands.*).ListUsers | listusers.*.ListUsers | (*listusers.*).ListUsers | storage.*.* | (*server.Server).resolveTypesystem | (*server.Server).v2Check | (*server.Server).shadowV2Check : assert authzOK

//@ func (*Server).BatchCheck(s, ctx, req) (res, err)
//@   property C26
//@   option nosafety
//@   option stable req
//@   monitor authzBeforeData
//@     ghost authzOK = false
//@     after call (*server.Server).checkAuthz args _, _, st, m returning e : authzOK = authzOK || (e == nil && st == req.GetStoreId() && m == "BatchCheck")
//@     before call (*commands.*).Execute* | (*commands.*).ListUsers | listusers.*.ListUsers | (*listusers.*).ListUsers | storage.*.* | (*server.Server).resolveTypesystem | (*server.Server).v2Check | (*server.Server).shadowV2Check : assert authzOK

//@ func (*Server).Check(s, ctx, req) (res, err)
//@   property C26
//@   option nosafety
//@   option stable req
//@   monitor authzBeforeData
//@     ghost authzOK = false
//@     after call (*server.Server).checkAuthz args _, _, st, m returning e : authzOK = authzOK || (e == nil && st == req.GetStoreId() && m == "Check")
//@     before call (*commands.*).Execute* | (*commands.*).ListUsers | listusers.*.ListUsers | (*listusers.*).ListUsers | storage.*.* | (*server.Server).resolveTypesystem | (*server.Server).v2Check | (*server.Server).shadowV2Check : assert authzOK

//@ func (*Server).Expand(s, ctx, req) (res, err)
//@   property C26
//@   option nosafety
//@   option stable req
//@   monitor authzBeforeData
//@     ghost authzOK = false
//@     after call (*server.Server).checkAuthz args _, _, st, m returning e : authzOK = authzOK || (e == nil && st == req.GetStoreId() && m == "Expand")
//@     before call (*commands.*).Execute* | (*commands.*).ListUsers | listusers.*.ListUsers | (*listusers.*).ListUsers | storage.*.* | (*server.Server).resolveTypesystem | (*server.Server).v2Check | (*server.Server).shadowV2Check : assert authzOK

//@ func (*Server).ListObjects(s, ctx, req) (res, err)
//@   property C26
//@   option nosafety
//@   option stable req
//@   monitor authzBeforeData
//@     ghost authzOK = false
//@     after call (*server.Server).checkAuthz args _, _, st, m returning e : authzOK = authzOK || (e == nil && st == req.GetStoreId() && m == "ListObjects")
//@     before call (*commands.*).Execute* | (*commands.*).ListUsers | listusers.*.ListUsers | (*listusers.*).ListUsers | storage.*.* | (*server.Server).resolveTypesystem | (*server.Server).v2Check | (*server.Server).shadowV2Check : assert authzOK

//@ func (*Server).ListUsers(s, ctx, req) (res, err)
//@   property C26
//@   option nosafety
//@   option stable req
//@   monitor authzBeforeData
//@     ghost authzOK = false
//@     after call (*server.Server).checkAuthz args _, _, st, m returning e : authzOK = authzOK || (e == nil && st == req.GetStoreId() && m == "ListUsers")
//@     before call (*commands.*).Execute* | (*commands.*).ListUsers | listusers.*.ListUsers | (*listusers.*).ListUsers | storage.*.* | (*server.Server).resolveTypesystem | (*server.Server).v2Check | (*server.Server).shadowV2Check : assert authzOK

//@ func (*Server).Read(s, ctx, req) (res, err)
//@   property C26
//@   option nosafety
//@   option stable req
//@   monitor authzBeforeData
//@     ghost authzOK = false
//@     after call (*server.Server).checkAuthz args _, _, st, m returning e : authzOK = authzOK || (e == nil && st == req.GetStoreId() && m == "Read")
//@     before call (*commands.*).Execute* | (*commands.*).ListUsers | listusers.*.ListUsers | (*listusers.*).ListUsers | storage.*.* | (*server.Server).resolveTypesystem | (*server.Server).v2Check | (*server.Server).shadowV2Check : assert authzOK

//@ func (*Server).ReadChanges(s, ctx, req) (res, err)
//@   property C26
//@   option nosafety
//@   option stable req
//@   monitor authzBeforeData
//@     ghost authzOK = false
//@     after call (*server.Server).checkAuthz args _, _, st, m returning e : authzOK = authzOK || (e == nil && st == req.GetStoreId() && m == "ReadChanges")
//@     before call (*commands.*).Execute* | (*commands.*).ListUsers | listusers.*.ListUsers | (*listusers.*).ListUsers | storage.*.* | (*server.Server).resolveTypesystem | (*server.Server).v2Check | (*server.Server).shadowV2Check : assert authzOK

//@ func (*Server).DeleteStore(s, ctx, req) (res, err)
//@   property C26
//@   option nosafety
//@   option stable req
//@   monitor authzBeforeData
//@     ghost authzOK = false
//@     after call (*server.Server).checkAuthz args _, _, st, m returning e : authzOK = authzOK || (e == nil && st == req.GetStoreId() && m == "DeleteStore")
//@     before call (*commands.*).Execute* | (*commands.*).ListUsers | listusers.*.ListUsers | (*listusers.*).ListUsers | storage.*.* | (*server.Server).resolveTypesystem | (*server.Server).v2Check | (*server.Server).shadowV2Check : assert authzOK

//@ func (*Server).GetStore(s, ctx, req) (res, err)
//@   property C26
//@   option nosafety
//@   option stable req
//@   monitor authzBeforeData
//@     ghost authzOK = false
//@     after call (*server.Server).checkAuthz args _, _, st, m returning e : authzOK = authzOK || (e == nil && st == req.GetStoreId() && m == "GetStore")
//@     before call (*commands.*).Execute* | (*commands.*).ListUsers | listusers.*.ListUsers | (*listusers.*).ListUsers | storage.*.* | (*server.Server).resolveTypesystem | (*server.Server).v2Check | (*server.Server).shadowV2Check : assert authzOK

//@ func (*Server).StreamedListObjects(s, req, srv) (err)
//@   property C26
//@   option nosafety
//@   option stable req
//@   monitor authzBeforeData
//@     ghost authzOK = false
//@     after call (*server.Server).checkAuthz args _, _, st, m returning e : authzOK = authzOK || (e == nil && st == req.GetStoreId() && m == "StreamedListObjects")
//@     before call (*commands.*).Execute* | (*commands.*).ListUsers | listusers.*.ListUsers | (*listusers.*).ListUsers | storage.*.* | (*server.Server).resolveTypesystem | (*server.Server).v2Check | (*server.Server).shadowV2Check : assert authzOK

//@ func (*Server).Write(s, ctx, req) (res, err)
//@   property C26
//@   option nosafety
//@   option stable req
//@   note the typesystem (a model read) is resolved before authorisation because the modules to authorise are derived from the model; tuple data is not touched before checkWriteAuthz succeeds
//@   monitor authzBeforeData
//@     ghost authzOK = false
//@     after call (*server.Server).checkWriteAuthz args _, _, r returning e : authzOK = authzOK || (e == nil && r == req)
//@     before call (*commands.*).Execute* | storage.OpenFGADatastore.Write* | storage.OpenFGADatastore.Read | storage.OpenFGADatastore.ReadPage | storage.OpenFGADatastore.ReadUser* | storage.OpenFGADatastore.ReadStarting* | storage.OpenFGADatastore.ReadChanges | storage.RelationshipTuple*.* | (*server.Server).v2Check : assert authzOK

//@ func (*Server).CreateStore(s, ctx, req) (res, err)
//@   property C26
//@   option nosafety
//@   monitor authzBeforeData
//@     ghost authzOK = false
//@     after call (*server.Server).checkCreateStoreAuthz returning e : authzOK = authzOK || e == nil
//@     before call (*commands.*).Execute* | (*commands.*).ListUsers | listusers.*.ListUsers | (*listusers.*).ListUsers | storage.*.* | (*server.Server).resolveTypesystem | (*server.Server).v2Check | (*server.Server).shadowV2Check : assert authzOK

//@ func (*Server).ListStores(s, ctx, req) (res, err)
//@   property C26
//@   option nosafety
//@   monitor authzBeforeData
//@     ghost authzOK = false
//@     ghost accessible slice = nil
//@     after call (*server.Server).getAccessibleStores returning ids, e : authzOK = e == nil ; accessible = ids
//@     before call (*commands.ListStoresQuery).Execute args _, _, _, ids2 : assert authzOK && ids2 == accessible
//@     before call (*commands.*).Execute* | (*commands.*).ListUsers | listusers.*.ListUsers | (*listusers.*).ListUsers | storage.*.* | (*server.Server).resolveTypesystem | (*server.Server).v2Check | (*server.Server).shadowV2Check : assert authzOK

//@ func (*Server).checkAuthz(s, ctx, storeID, apiMethod, modules) (err)
//@   property C26
//@   option nosafety
//@   ensures @granted err == nil ==> skipped || (authCalled && authErr == nil && authStore == storeID && authMethod == apiMethod && authMods == modules)
//@   ensures @denied err != nil ==> err == authz.ErrUnauthorizedResponse
//@   monitor authzTrace
//@     ghost skipped = false
//@     ghost authCalled = false
//@     ghost authErr error = nil
//@     ghost authStore string = ""
//@     ghost authMethod string = ""
//@     ghost authMods slice = nil
//@     after call authclaims.SkipAuthzCheckFromContext returning b : skipped = b
//@     after call authz.AuthorizerInterface.Authorize args _, _, st, m, mods returning e : authCalled = true ; authErr = e ; authStore = st ; authMethod = m ; authMods = mods

//@ func (*Server).checkCreateStoreAuthz(s, ctx) (err)
//@   property C26
//@   option nosafety
//@   ensures @granted err == nil ==> skipped || (authCalled && authErr == nil)
//@   ensures @denied err != nil ==> err == authz.ErrUnauthorizedResponse
//@   monitor authzTrace
//@     ghost skipped = false
//@     ghost authCalled = false
//@     ghost authErr error = nil
//@     after call authclaims.SkipAuthzCheckFromContext returning b : skipped = b
//@     after call authz.AuthorizerInterface.AuthorizeCreateStore returning e : authCalled = true ; authErr = e

//@ func (*Server).getAccessibleStores(s, ctx) (ids, err)
//@   property C26
//@   option nosafety
//@   ensures @granted err == nil ==> (skipped && ids == nil) || (listAuthCalled && listAuthErr == nil && storesCalled && storesErr == nil && ids == stores)
//@   ensures @denied err != nil ==> err == authz.ErrUnauthorizedResponse && ids == nil
//@   monitor authzTrace
//@     ghost skipped = false
//@     ghost listAuthCalled = false
//@     ghost listAuthErr error = nil
//@     ghost storesCalled = false
//@     ghost storesErr error = nil
//@     ghost stores slice = nil
//@     after call authclaims.SkipAuthzCheckFromContext returning b : skipped = b
//@     after call authz.AuthorizerInterface.AuthorizeListStores returning e : listAuthCalled = true ; listAuthErr = e
//@     after call authz.AuthorizerInterface.ListAuthorizedStores returning l, e : storesCalled = true ; storesErr = e ; stores = l
//@     before call authz.AuthorizerInterface.ListAuthorizedStores : assert listAuthCalled && listAuthErr == nil

//@ func (*Server).checkWriteAuthz(s, ctx, req, typesys) (err)
//@   property C26
//@   option nosafety
//@   option stable req
//@   ensures @granted err == nil ==> skipped || (modsCalled && modsErr == nil && authzCalled && authzErr == nil)
//@   monitor authzTrace
//@     ghost skipped = false
//@     ghost modsCalled = false
//@     ghost modsErr error = nil
//@     ghost mods slice = nil
//@     ghost authzCalled = false
//@     ghost authzErr error = nil
//@     after call authclaims.SkipAuthzCheckFromContext returning b : skipped = b
//@     before call authz.AuthorizerInterface.GetModulesForWriteRequest args _, _, r, ts : assert r == req && ts == typesys
//@     after call authz.AuthorizerInterface.GetModulesForWriteRequest returning m, e : modsCalled = true ; modsErr = e ; mods = m
//@     before call (*server.Server).checkAuthz args _, _, st, m, ms : assert modsCalled && modsErr == nil && st == req.GetStoreId() && m == "Write" && ms == mods
//@     after call (*server.Server).checkAuthz returning e : authzCalled = true ; authzErr = e

