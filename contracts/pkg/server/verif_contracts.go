//go:build verif

// Contracts for package server, checked by /verif/govc. Comment-only; compiled only under the build tag "verif".
package server

//@ func (*Server).WriteAssertions(s, ctx, req) (res, err)
//@   property C26
//@   option nosafety
//@   option stable req
//@   monitor authzBeforeData
//@     ghost authzOK = false
//@     after call (*server.Server).checkAuthz args _, _, st, m returning e : authzOK = authzOK || (e == nil && st == req.GetStoreId() && m == "WriteAssertions")
//@     before call (*commands.*).Execute* | (*commands.*).ListUsers | listusers.*.ListUsers | (*listusers.*).ListUsers | storage.*.* | (*server.Server).resolveTypesystem | (*server.Server).v2Check | (*server.Server).shadowV2Check : assert authzOK

//@ func (*Server).ReadAssertions(s, ctx, req) (res, err)
//@   property C26
//@   option nosafety
//@   option stable req
//@   monitor authzBeforeData
//@     ghost authzOK = false
//@     after call (*server.Server).checkAuthz args _, _, st, m returning e : authzOK = authzOK || (e == nil && st == req.GetStoreId() && m == "ReadAssertions")
//@     before call (*commands.*).Execute* | (*commands.*).ListUsers | listusers.*.ListUsers | (*listusers.*).ListUsers | storage.*.* | (*server.Server).resolveTypesystem | (*server.Server).v2Check | (*server.Server).shadowV2Check : assert authzOK

//@ func (*Server).ReadAuthorizationModel(s, ctx, req) (res, err)
//@   property C26
//@   option nosafety
//@   option stable req
//@   monitor authzBeforeData
//@     ghost authzOK = false
//@     after call (*server.Server).checkAuthz args _, _, st, m returning e : authzOK = authzOK || (e == nil && st == req.GetStoreId() && m == "ReadAuthorizationModel")
//@     before call (*commands.*).Execute* | (*commands.*).ListUsers | listusers.*.ListUsers | (*listusers.*).ListUsers | storage.*.* | (*server.Server).resolveTypesystem | (*server.Server).v2Check | (*server.Server).shadowV2Check : assert authzOK

//@ func (*Server).WriteAuthorizationModel(s, ctx, req) (res, err)
//@   property C26
//@   option nosafety
//@   option stable req
//@   monitor authzBeforeData
//@     ghost authzOK = false
//@     after call (*server.Server).checkAuthz args _, _, st, m returning e : authzOK = authzOK || (e == nil && st == req.GetStoreId() && m == "WriteAuthorizationModel")
//@     before call (*commands.*).Execute* | (*commands.*).ListUsers | listusers.*.ListUsers | (*listusers.*).ListUsers | storage.*.* | (*server.Server).resolveTypesystem | (*server.Server).v2Check | (*server.Server).shadowV2Check : assert authzOK

//@ func (*Server).ReadAuthorizationModels(s, ctx, req) (res, err)
//@   property C26
//@   option nosafety
//@   option stable req
//@   monitor authzBeforeData
//@     ghost authzOK = false
//@     after call (*server.Server).checkAuthz args _, _, st, m returning e : authzOK = authzOK || (e == nil && st == req.GetStoreId() && m == "ReadAuthorizationModels")
//@     before call (*commands.*).Execute* | (*commands.*).ListUsers | listusers.*.ListUsers | (*listusers.*).ListUsers | storage.*.* | (*server.Server).resolveTypesystem | (*server.Server).v2Check | (*server.Server).shadowV2Check : assert authzOK

//@ func (*Server).BatchCheck(s, ctx, req) (res, err)
//@   property C26 C10 C07
//@   option nosafety
//@   option stable req
//@   monitor authzBeforeData
//@     ghost authzOK = false
//@     after call (*server.Server).checkAuthz args _, _, st, m returning e : authzOK = authzOK || (e == nil && st == req.GetStoreId() && m == "BatchCheck")
//@     before call (*commands.*).Execute* | (*commands.*).ListUsers | listusers.*.ListUsers | (*listusers.*).ListUsers | storage.*.* | (*server.Server).resolveTypesystem | (*server.Server).v2Check | (*server.Server).shadowV2Check : assert authzOK
//@   option monitor_props requestWiring=C10,C07
//@   monitor requestWiring
//@     before call (*commands.BatchCheckQuery).Execute args _, _, p : assert p != nil && p.StoreID == req.GetStoreId() && p.Checks == req.GetChecks() && p.Consistency == req.GetConsistency()

//@ func (*Server).Check(s, ctx, req) (res, err)
//@   property C26 C10 C04 C03
//@   option nosafety
//@   option stable req
//@   monitor authzBeforeData
//@     ghost authzOK = false
//@     after call (*server.Server).checkAuthz args _, _, st, m returning e : authzOK = authzOK || (e == nil && st == req.GetStoreId() && m == "Check")
//@     before call (*commands.*).Execute* | (*commands.*).ListUsers | listusers.*.ListUsers | (*listusers.*).ListUsers | storage.*.* | (*server.Server).resolveTypesystem | (*server.Server).v2Check | (*server.Server).shadowV2Check : assert authzOK
//@   option monitor_props requestWiring=C10,C04 v2Gating=C03
//@   monitor v2Gating
//@     ghost v2Called = false
//@     ghost v2Res *commands.CheckResult = nil
//@     ghost v2Err error = nil
//@     ghost classified = false
//@     ghost terminal = false
//@     before call (*server.Server).v2Check args _, _, r, _, _, _ : assert r == req
//@     after call (*server.Server).v2Check returning r, e : v2Called = true ; v2Res = r ; v2Err = e
//@     before call commands.IsV2CheckTerminalError args e : assert v2Called && e == v2Err
//@     after call commands.IsV2CheckTerminalError args e returning b : classified = e == v2Err ; terminal = b
//@     before call (*commands.CheckQuery).Execute : assert !v2Called || (v2Err != nil && classified && !terminal)
//@   ensures @v2DecisionReturned v2Called && v2Err == nil && res != nil ==> err == nil && v2Res != nil && res.Allowed == v2Res.Allowed
//@   ensures @v2TerminalErrorNoFallback v2Called && v2Err != nil && classified && terminal ==> res == nil
//@   monitor requestWiring
//@     before call (*commands.CheckQuery).Execute args _, _, p : assert p != nil && p.StoreID == req.GetStoreId() && p.TupleKey == req.GetTupleKey() && p.ContextualTuples == req.GetContextualTuples() && p.Context == req.GetContext() && p.Consistency == req.GetConsistency()

//@ func (*Server).Expand(s, ctx, req) (res, err)
//@   property C26 C10 C04 C30
//@   option nosafety
//@   option stable req
//@   monitor authzBeforeData
//@     ghost authzOK = false
//@     after call (*server.Server).checkAuthz args _, _, st, m returning e : authzOK = authzOK || (e == nil && st == req.GetStoreId() && m == "Expand")
//@     before call (*commands.*).Execute* | (*commands.*).ListUsers | listusers.*.ListUsers | (*listusers.*).ListUsers | storage.*.* | (*server.Server).resolveTypesystem | (*server.Server).v2Check | (*server.Server).shadowV2Check : assert authzOK
//@   option monitor_props requestWiring=C10,C04,C30
//@   monitor requestWiring
//@     before call (*commands.ExpandQuery).Execute args _, _, r : assert r != nil && r.StoreId == req.GetStoreId() && r.ContextualTuples == req.GetContextualTuples() && r.Consistency == req.GetConsistency()

//@ func (*Server).ListObjects(s, ctx, req) (res, err)
//@   property C26 C10 C04 C05
//@   option nosafety
//@   option stable req
//@   monitor authzBeforeData
//@     ghost authzOK = false
//@     after call (*server.Server).checkAuthz args _, _, st, m returning e : authzOK = authzOK || (e == nil && st == req.GetStoreId() && m == "ListObjects")
//@     before call (*commands.*).Execute* | (*commands.*).ListUsers | listusers.*.ListUsers | (*listusers.*).ListUsers | storage.*.* | (*server.Server).resolveTypesystem | (*server.Server).v2Check | (*server.Server).shadowV2Check : assert authzOK
//@   option monitor_props requestWiring=C10,C04,C05
//@   monitor requestWiring
//@     before call (*commands.ListObjectsQuery).Execute args _, _, r : assert r != nil && r.StoreId == req.GetStoreId() && r.ContextualTuples == req.GetContextualTuples() && r.Context == req.GetContext() && r.User == req.GetUser() && r.Relation == req.GetRelation() && r.Consistency == req.GetConsistency()

//@ func (*Server).ListUsers(s, ctx, req) (res, err)
//@   property C26
//@   option nosafety
//@   option stable req
//@   monitor authzBeforeData
//@     ghost authzOK = false
//@     after call (*server.Server).checkAuthz args _, _, st, m returning e : authzOK = authzOK || (e == nil && st == req.GetStoreId() && m == "ListUsers")
//@     before call (*commands.*).Execute* | (*commands.*).ListUsers | listusers.*.ListUsers | (*listusers.*).ListUsers | storage.*.* | (*server.Server).resolveTypesystem | (*server.Server).v2Check | (*server.Server).shadowV2Check : assert authzOK

//@ func (*Server).Read(s, ctx, req) (res, err)
//@   property C26
//@   option nosafety
//@   option stable req
//@   monitor authzBeforeData
//@     ghost authzOK = false
//@     after call (*server.Server).checkAuthz args _, _, st, m returning e : authzOK = authzOK || (e == nil && st == req.GetStoreId() && m == "Read")
//@     before call (*commands.*).Execute* | (*commands.*).ListUsers | listusers.*.ListUsers | (*listusers.*).ListUsers | storage.*.* | (*server.Server).resolveTypesystem | (*server.Server).v2Check | (*server.Server).shadowV2Check : assert authzOK

//@ func (*Server).ReadChanges(s, ctx, req) (res, err)
//@   property C26
//@   option nosafety
//@   option stable req
//@   monitor authzBeforeData
//@     ghost authzOK = false
//@     after call (*server.Server).checkAuthz args _, _, st, m returning e : authzOK = authzOK || (e == nil && st == req.GetStoreId() && m == "ReadChanges")
//@     before call (*commands.*).Execute* | (*commands.*).ListUsers | listusers.*.ListUsers | (*listusers.*).ListUsers | storage.*.* | (*server.Server).resolveTypesystem | (*server.Server).v2Check | (*server.Server).shadowV2Check : assert authzOK

//@ func (*Server).DeleteStore(s, ctx, req) (res, err)
//@   property C26
//@   option nosafety
//@   option stable req
//@   monitor authzBeforeData
//@     ghost authzOK = false
//@     after call (*server.Server).checkAuthz args _, _, st, m returning e : authzOK = authzOK || (e == nil && st == req.GetStoreId() && m == "DeleteStore")
//@     before call (*commands.*).Execute* | (*commands.*).ListUsers | listusers.*.ListUsers | (*listusers.*).ListUsers | storage.*.* | (*server.Server).resolveTypesystem | (*server.Server).v2Check | (*server.Server).shadowV2Check : assert authzOK

//@ func (*Server).GetStore(s, ctx, req) (res, err)
//@   property C26
//@   option nosafety
//@   option stable req
//@   monitor authzBeforeData
//@     ghost authzOK = false
//@     after call (*server.Server).checkAuthz args _, _, st, m returning e : authzOK = authzOK || (e == nil && st == req.GetStoreId() && m == "GetStore")
//@     before call (*commands.*).Execute* | (*commands.*).ListUsers | listusers.*.ListUsers | (*listusers.*).ListUsers | storage.*.* | (*server.Server).resolveTypesystem | (*server.Server).v2Check | (*server.Server).shadowV2Check : assert authzOK

//@ func (*Server).StreamedListObjects(s, req, srv) (err)
//@   property C26
//@   option nosafety
//@   option stable req
//@   monitor authzBeforeData
//@     ghost authzOK = false
//@     after call (*server.Server).checkAuthz args _, _, st, m returning e : authzOK = authzOK || (e == nil && st == req.GetStoreId() && m == "StreamedListObjects")
//@     before call (*commands.*).Execute* | (*commands.*).ListUsers | listusers.*.ListUsers | (*listusers.*).ListUsers | storage.*.* | (*server.Server).resolveTypesystem | (*server.Server).v2Check | (*server.Server).shadowV2Check : assert authzOK

//@ func (*Server).Write(s, ctx, req) (res, err)
//@   property C26
//@   option nosafety
//@   option stable req
//@   note the typesystem (a model read) is resolved before authorisation because the modules to authorise are derived from the model; tuple data is not touched before checkWriteAuthz succeeds
//@   monitor authzBeforeData
//@     ghost authzOK = false
//@     after call (*server.Server).checkWriteAuthz args _, _, r returning e : authzOK = authzOK || (e == nil && r == req)
//@     before call (*commands.*).Execute* | storage.OpenFGADatastore.Write* | storage.OpenFGADatastore.Read | storage.OpenFGADatastore.ReadPage | storage.OpenFGADatastore.ReadUser* | storage.OpenFGADatastore.ReadStarting* | storage.OpenFGADatastore.ReadChanges | storage.RelationshipTuple*.* | (*server.Server).v2Check : assert authzOK

//@ func (*Server).CreateStore(s, ctx, req) (res, err)
//@   property C26
//@   option nosafety
//@   monitor authzBeforeData
//@     ghost authzOK = false
//@     after call (*server.Server).checkCreateStoreAuthz returning e : authzOK = authzOK || e == nil
//@     before call (*commands.*).Execute* | (*commands.*).ListUsers | listusers.*.ListUsers | (*listusers.*).ListUsers | storage.*.* | (*server.Server).resolveTypesystem | (*server.Server).v2Check | (*server.Server).shadowV2Check : assert authzOK

//@ func (*Server).ListStores(s, ctx, req) (res, err)
//@   property C26
//@   option nosafety
//@   monitor authzBeforeData
//@     ghost authzOK = false
//@     ghost accessible slice = nil
//@     after call (*server.Server).getAccessibleStores returning ids, e : authzOK = e == nil ; accessible = ids
//@     before call (*commands.ListStoresQuery).Execute args _, _, _, ids2 : assert authzOK && ids2 == accessible
//@     before call (*commands.*).Execute* | (*commands.*).ListUsers | listusers.*.ListUsers | (*listusers.*).ListUsers | storage.*.* | (*server.Server).resolveTypesystem | (*server.Server).v2Check | (*server.Server).shadowV2Check : assert authzOK

//@ func (*Server).checkAuthz(s, ctx, storeID, apiMethod, modules) (err)
//@   property C26
//@   option nosafety
//@   ensures @granted err == nil ==> skipped || (authCalled && authErr == nil && authStore == storeID && authMethod == apiMethod && authMods == modules)
//@   ensures @denied err != nil ==> err == authz.ErrUnauthorizedResponse
//@   monitor authzTrace
//@     ghost skipped = false
//@     ghost authCalled = false
//@     ghost authErr error = nil
//@     ghost authStore string = ""
//@     ghost authMethod string = ""
//@     ghost authMods slice = nil
//@     after call authclaims.SkipAuthzCheckFromContext returning b : skipped = b
//@     after call authz.AuthorizerInterface.Authorize args _, _, st, m, mods returning e : authCalled = true ; authErr = e ; authStore = st ; authMethod = m ; authMods = mods

//@ func (*Server).checkCreateStoreAuthz(s, ctx) (err)
//@   property C26
//@   option nosafety
//@   ensures @granted err == nil ==> skipped || (authCalled && authErr == nil)
//@   ensures @denied err != nil ==> err == authz.ErrUnauthorizedResponse
//@   monitor authzTrace
//@     ghost skipped = false
//@     ghost authCalled = false
//@     ghost authErr error = nil
//@     after call authclaims.SkipAuthzCheckFromContext returning b : skipped = b
//@     after call authz.AuthorizerInterface.AuthorizeCreateStore returning e : authCalled = true ; authErr = e

//@ func (*Server).getAccessibleStores(s, ctx) (ids, err)
//@   property C26
//@   option nosafety
//@   ensures @granted err == nil ==> (skipped && ids == nil) || (listAuthCalled && listAuthErr == nil && storesCalled && storesErr == nil && ids == stores)
//@   ensures @denied err != nil ==> err == authz.ErrUnauthorizedResponse && ids == nil
//@   monitor authzTrace
//@     ghost skipped = false
//@     ghost listAuthCalled = false
//@     ghost listAuthErr error = nil
//@     ghost storesCalled = false
//@     ghost storesErr error = nil
//@     ghost stores slice = nil
//@     after call authclaims.SkipAuthzCheckFromContext returning b : skipped = b
//@     after call authz.AuthorizerInterface.AuthorizeListStores returning e : listAuthCalled = true ; listAuthErr = e
//@     after call authz.AuthorizerInterface.ListAuthorizedStores returning l, e : storesCalled = true ; storesErr = e ; stores = l
//@     before call authz.AuthorizerInterface.ListAuthorizedStores : assert listAuthCalled && listAuthErr == nil

//@ func (*Server).checkWriteAuthz(s, ctx, req, typesys) (err)
//@   property C26
//@   option nosafety
//@   option stable req
//@   ensures @granted err == nil ==> skipped || (modsCalled && modsErr == nil && authzCalled && authzErr == nil)
//@   monitor authzTrace
//@     ghost skipped = false
//@     ghost modsCalled = false
//@     ghost modsErr error = nil
//@     ghost mods slice = nil
//@     ghost authzCalled = false
//@     ghost authzErr error = nil
//@     after call authclaims.SkipAuthzCheckFromContext returning b : skipped = b
//@     before call authz.AuthorizerInterface.GetModulesForWriteRequest args _, _, r, ts : assert r == req && ts == typesys
//@     after call authz.AuthorizerInterface.GetModulesForWriteRequest returning m, e : modsCalled = true ; modsErr = e ; mods = m
//@     before call (*server.Server).checkAuthz args _, _, st, m, ms : assert modsCalled && modsErr == nil && st == req.GetStoreId() && m == "Write" && ms == mods
//@     after call (*server.Server).checkAuthz returning e : authzCalled = true ; authzErr = e


// ------------------------------------------------------------------ C32: AuthZEN requests are mapped to the native request and delegated
// the mapped Check: store, model, user = subject type:id, relation = action name, object = resource type:id, and the
// context merged from exactly this subject, this resource, this action and the request context (in these roles)
//@ func buildCheckRequest(storeID, authorizationModelID, subject, resource, action, reqContext) (res, err)
//@   property C32
//@   option nosafety
//@   ensures @mapped err == nil ==> res != nil && res.StoreId == storeID && res.AuthorizationModelId == authorizationModelID && res.TupleKey != nil && res.TupleKey.User == subject.GetType() + ":" + subject.GetId() && res.TupleKey.Relation == action.GetName() && res.TupleKey.Object == resource.GetType() + ":" + resource.GetId() && merged && mergeErr == nil && res.Context == mergedCtx
//@   ensures @failClosed err != nil ==> res == nil
//@   monitor roles
//@     ghost merged = false
//@     ghost mergedCtx *structpb.Struct = nil
//@     ghost mergeErr error = nil
//@     before call server.mergePropertiesToContext args rc, s, r, a : assert rc == reqContext && typeIs(s, "*authzenv1.Subject") && as(s, "*authzenv1.Subject") == subject && typeIs(r, "*authzenv1.Resource") && as(r, "*authzenv1.Resource") == resource && a == action
//@     after call server.mergePropertiesToContext returning c, e : merged = true ; mergedCtx = c ; mergeErr = e

// a single evaluation is the native Check of the mapped request, and its decision is that Check's
//@ func (*Server).Evaluation(s, ctx, req) (res, err)
//@   property C32
//@   option nosafety
//@   option stable req
//@   option defer_neutral
//@   ensures @decision res != nil ==> err == nil && checked && checkErr == nil && res.Decision == checkRes.GetAllowed()
//@   monitor delegate
//@     ghost hdrModel string = ""
//@     ghost built *openfgav1.CheckRequest = nil
//@     ghost buildErr error = nil
//@     ghost checked = false
//@     ghost checkRes *openfgav1.CheckResponse = nil
//@     ghost checkErr error = nil
//@     after call server.getAuthorizationModelIDFromHeader returning m : hdrModel = m
//@     before call server.buildCheckRequest args st, m, sub, rs, act, c : assert st == req.GetStoreId() && m == hdrModel && sub == req.GetSubject() && rs == req.GetResource() && act == req.GetAction() && c == req.GetContext()
//@     after call server.buildCheckRequest returning r, e : built = r ; buildErr = e
//@     before call (*server.Server).Check args _, _, r : assert buildErr == nil && r == built
//@     after call (*server.Server).Check returning r, e : checked = true ; checkRes = r ; checkErr = e

// batched evaluations: every item is mapped with the request's store and the header's model from its own (or the
// top-level) subject, resource, action and context, and the BatchCheck item carries exactly the mapped tuple and the
// mapped (merged) context under the item's index as correlation id
//@ func (*Server).evaluateAll(s, ctx, req, authorizationModelID) (res, err)
//@   property C32
//@   option nosafety
//@   option stable req
//@   loop 0 invariant batchReq != nil && batchReq.StoreId == req.GetStoreId() && batchReq.AuthorizationModelId == authorizationModelID
//@   monitor items
//@     ghost lastReq *openfgav1.CheckRequest = nil
//@     ghost lastErr error = nil
//@     ghost resolved = false
//@     ghost rSub *authzenv1.Subject = nil
//@     ghost rRes *authzenv1.Resource = nil
//@     ghost rAct *authzenv1.Action = nil
//@     ghost rCtx *structpb.Struct = nil
//@     after call server.resolveEvalFields returning a, b, c, d : resolved = true ; rSub = a ; rRes = b ; rAct = c ; rCtx = d
//@     before call server.buildCheckRequest args st, m, sub, rs, act, c : assert st == req.GetStoreId() && m == authorizationModelID && resolved && sub == rSub && rs == rRes && act == rAct && c == rCtx
//@     after call server.buildCheckRequest returning r, e : lastReq = r ; lastErr = e
//@     before call (*server.Server).BatchCheck args _, _, br : assert br != nil && br.StoreId == req.GetStoreId() && br.AuthorizationModelId == authorizationModelID
//@     before call builtin.append args sl, add : assert lastErr == nil && len(add) == 1 && add[0] != nil && add[0].TupleKey == lastReq.GetTupleKey() && add[0].Context == lastReq.GetContext() && add[0].CorrelationId == itoa(i)

// per-item defaults: an item's own subject / resource / action / context wins, otherwise the request-level one
//@ func resolveEvalFields(eval, topSubject, topResource, topAction, topContext) (sub, res, act, c)
//@   property C32
//@   option nosafety
//@   modifies nothing
//@   ensures @own sub == (eval.GetSubject() != nil ? eval.GetSubject() : topSubject) && res == (eval.GetResource() != nil ? eval.GetResource() : topResource) && act == (eval.GetAction() != nil ? eval.GetAction() : topAction) && c == (eval.GetContext() != nil ? eval.GetContext() : topContext)

// the searches delegate to StreamedListObjects / ListUsers with the mapped request
//@ func (*Server).ResourceSearch(s, ctx, req) (res, err)
//@   property C32
//@   option nosafety
//@   option stable req
//@   monitor delegate
//@     ghost hdrModel string = ""
//@     ghost mergedCtx *structpb.Struct = nil
//@     ghost mergeErr error = nil
//@     after call server.getAuthorizationModelIDFromHeader returning m : hdrModel = m
//@     before call server.mergePropertiesToContext args rc, sb, rs, a : assert rc == req.GetContext() && typeIs(sb, "*authzenv1.Subject") && as(sb, "*authzenv1.Subject") == req.GetSubject() && typeIs(rs, "*authzenv1.ResourceFilter") && as(rs, "*authzenv1.ResourceFilter") == req.GetResource() && a == req.GetAction()
//@     after call server.mergePropertiesToContext returning c, e : mergedCtx = c ; mergeErr = e
//@     before call (*server.Server).StreamedListObjects args _, lr, _ : assert mergeErr == nil && lr != nil && lr.StoreId == req.GetStoreId() && lr.AuthorizationModelId == hdrModel && lr.User == req.GetSubject().GetType() + ":" + req.GetSubject().GetId() && lr.Relation == req.GetAction().GetName() && lr.Type == req.GetResource().GetType() && lr.Context == mergedCtx

//@ func (*Server).SubjectSearch(s, ctx, req) (res, err)
//@   property C32
//@   option nosafety
//@   option stable req
//@   monitor delegate
//@     ghost hdrModel string = ""
//@     ghost mergedCtx *structpb.Struct = nil
//@     ghost mergeErr error = nil
//@     after call server.getAuthorizationModelIDFromHeader returning m : hdrModel = m
//@     before call server.mergePropertiesToContext args rc, sb, rs, a : assert rc == req.GetContext() && typeIs(sb, "*authzenv1.SubjectFilter") && as(sb, "*authzenv1.SubjectFilter") == req.GetSubject() && typeIs(rs, "*authzenv1.Resource") && as(rs, "*authzenv1.Resource") == req.GetResource() && a == req.GetAction()
//@     after call server.mergePropertiesToContext returning c, e : mergedCtx = c ; mergeErr = e
//@     before call (*server.Server).ListUsers args _, _, lr : assert mergeErr == nil && lr != nil && lr.StoreId == req.GetStoreId() && lr.AuthorizationModelId == hdrModel && lr.Object != nil && lr.Object.Type == req.GetResource().GetType() && lr.Object.Id == req.GetResource().GetId() && lr.Relation == req.GetAction().GetName() && lr.Context == mergedCtx && len(lr.UserFilters) == 1 && lr.UserFilters[0] != nil && lr.UserFilters[0].Type == req.GetSubject().GetType()

// the short-circuit variants evaluate each item as the native Check of the mapped request
//@ func (*Server).evaluateWithShortCircuit(s, ctx, req, authorizationModelID, semantic) (res)
//@   property C32
//@   option nosafety
//@   option stable req
//@   monitor items
//@     ghost lastReq *openfgav1.CheckRequest = nil
//@     ghost lastErr error = nil
//@     ghost resolved = false
//@     ghost rSub *authzenv1.Subject = nil
//@     ghost rRes *authzenv1.Resource = nil
//@     ghost rAct *authzenv1.Action = nil
//@     ghost rCtx *structpb.Struct = nil
//@     ghost checkRes *openfgav1.CheckResponse = nil
//@     ghost checkErr error = nil
//@     after call server.resolveEvalFields returning a, b, c, d : resolved = true ; rSub = a ; rRes = b ; rAct = c ; rCtx = d
//@     before call server.buildCheckRequest args st, m, sub, rs, act, c : assert st == req.GetStoreId() && m == authorizationModelID && resolved && sub == rSub && rs == rRes && act == rAct && c == rCtx
//@     after call server.buildCheckRequest returning r, e : lastReq = r ; lastErr = e
//@     before call (*server.Server).Check args _, _, r : assert lastErr == nil && r == lastReq

// the weighted-graph Check is evaluated for exactly this request (store, tuple, contextual tuples, context, consistency),
// with the cache controller consulted only below HIGHER_CONSISTENCY
//@ func (*Server).v2Check(s, ctx, req, cache, cacheController, modelGraphResolver) (res, err)
//@   property C03 C10 C04
//@   option nosafety
//@   option stable req
//@   option defer_neutral
//@   monitor wiring
//@     before call cachecontroller.CacheController.DetermineInvalidationTime args _, _, st : assert req.GetConsistency() != openfgav1.ConsistencyPreference_HIGHER_CONSISTENCY && st == req.GetStoreId()
//@     before call (*modelgraph.AuthorizationModelGraphResolver).Resolve args _, _, st, m : assert st == req.GetStoreId() && m == req.GetAuthorizationModelId()
//@     before call (*commands.CheckQueryV2).Execute args _, _, p : assert p != nil && p.StoreID == req.GetStoreId() && p.TupleKey == req.GetTupleKey() && p.ContextualTuples == req.GetContextualTuples() && p.Context == req.GetContext() && p.Consistency == req.GetConsistency()

// ------------------------------------------------------------------ C19: no-panic sweep (thin, safety-only contracts)
// every index and slice expression of these functions is in range for ALL inputs, with no precondition (generated by
// bin/sweepgen, kept because every obligation discharges; callees without contract are treated as arbitrary)
//@ func (*Server).ActionSearch(recv, a0, a1) (r0, r1)
//@   property C19
//@   option nosafety
//@   option safety slice,index

//@ func getAuthorizationModelIDFromHeader(a0) (r0)
//@   property C19
//@   option nosafety
//@   option safety slice,index
