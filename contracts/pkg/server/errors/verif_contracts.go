//go:build verif

// Contracts for package errors (server error mapping), checked by /verif/govc. Comment-only; compiled only under the
// build tag "verif".
package errors

// A failure is never mapped to "no error": every mapping function returns a non-nil error, so a caller that returns
// the mapped error on its failure path reports the failure. (Used at the call sites in commands; status.Error is nil
// only for codes.OK, see /verif/spec/stdlib.spec.)
//@ func ValidationError(cause) (err)
//@   property C18
//@   option nosafety
//@   modifies nothing
//@   ensures @neverNil err != nil

//@ func AuthorizationModelNotFound(modelID) (err)
//@   property C18
//@   option nosafety
//@   modifies nothing
//@   ensures @neverNil err != nil

//@ func HandleError(public, e) (err)
//@   property C18
//@   option nosafety
//@   modifies nothing
//@   ensures @neverNil err != nil

//@ func HandleTupleValidateError(e) (err)
//@   property C18
//@   option nosafety
//@   modifies nothing
//@   ensures @neverNil err != nil
