//go:build verif

// Contracts for package reverseexpand, checked by /verif/govc. Comment-only; compiled only under the build tag "verif".
package reverseexpand

// "no object is returned twice": a candidate is sent only the first time its id is recorded in the per-request
// candidate set (LoadOrStore reports "not loaded"), as exactly this object, flagged for further evaluation exactly
// when an intersection or exclusion lies on the path
//@ func (*ReverseExpandQuery).trySendCandidate(c, ctx, intersectionOrExclusionInPreviousEdges, candidateObject, candidateChan)
//@   property C05
//@   option nosafety
//@   option defer_neutral
//@   monitor dedup
//@     ghost recorded = false
//@     ghost firstTime = false
//@     after call (*sync.Map).LoadOrStore args m, k, v returning a, loaded : recorded = typeIs(k, "string") && as(k, "string") == candidateObject ; firstTime = !loaded
//@     before call concurrency.TrySendThroughChannel args _, v, ch : assert recorded && firstTime && v != nil && v.Object == candidateObject && v.ResultStatus == (intersectionOrExclusionInPreviousEdges ? reverseexpand.RequiresFurtherEvalStatus : reverseexpand.NoFurtherEvalStatus) && ch == candidateChan

// ------------------------------------------------------------------ C10 / C16: every hop of the classic expansion
// reads THIS request's store with THIS request's consistency preference, and the request handed to the next hop keeps
// store, target, contextual tuples, context and consistency
//@ func (*ReverseExpandQuery).readTuplesAndExecute(c, ctx, req, resultChan, intersectionOrExclusionInPreviousEdges, resolutionMetadata) (err)
//@   property C10 C16 C20
//@   option monitor_props release=C20
//@   ensures @iteratorReleased opened ==> released
//@   monitor release
//@     ghost cur iface = nil
//@     ghost opened = false
//@     ghost released = false
//@     after call storage.RelationshipTupleReader.ReadStartingWithUser returning it, e : opened = e == nil ; cur = it ; released = false
//@     after call storage.NewTupleKeyIteratorFromTupleIterator args x returning r : cur = (x == cur ? r : cur)
//@     after call storage.NewFilteredTupleKeyIterator args x, f returning r : cur = (x == cur ? r : cur)
//@     after call storage.NewConditionsFilteredTupleKeyIterator args x, f returning r : cur = (x == cur ? r : cur)
//@     after call defer:storage.Iterator.Stop | defer:storage.TupleKeyIterator.Stop | defer:storage.TupleIterator.Stop args recv : released = released || recv == cur
//@   option nosafety
//@   option defer_neutral
//@   option may_panic
//@   option stable req
//@   monitor hopRead
//@     before call storage.RelationshipTupleReader.ReadStartingWithUser args _, _, st, f, o : assert st == req.StoreID && o.Consistency.Preference == req.Consistency && f.ObjectType == req.edge.TargetReference.GetType()

//@ func (*ReverseExpandQuery).readTuplesAndExecute$1(ctx) (err)
//@   property C10 C16
//@   option nosafety
//@   monitor nextHop
//@     before call (*reverseexpand.ReverseExpandQuery).dispatch args _, _, r : assert r != nil && r.StoreID == deref(req).StoreID && r.ObjectType == deref(req).ObjectType && r.Relation == deref(req).Relation && r.ContextualTuples == deref(req).ContextualTuples && r.Context == deref(req).Context && r.Consistency == deref(req).Consistency && r.edge == deref(req).edge

// the per-edge request built by the classic expansion keeps store, target, contextual tuples, context and consistency
//@ func (*ReverseExpandQuery).execute(c, ctx, req, resultChan, intersectionOrExclusionInPreviousEdges, resolutionMetadata) (err)
//@   property C10 C16
//@   option nosafety
//@   option defer_neutral
//@   option may_panic
//@   monitor perEdge
//@     before call (*pool.ContextPool).Go args _ : assert r != nil && r.StoreID == req.StoreID && r.ObjectType == req.ObjectType && r.Relation == req.Relation && r.ContextualTuples == req.ContextualTuples && r.Context == req.Context && r.Consistency == req.Consistency
//@     before call (*reverseexpand.ReverseExpandQuery).dispatch args _, _, rr : assert rr != nil && rr.StoreID == req.StoreID && rr.ObjectType == req.ObjectType && rr.Relation == req.Relation && rr.ContextualTuples == req.ContextualTuples && rr.Context == req.Context && rr.Consistency == req.Consistency

// ------------------------------------------------------------------ C20: iterators opened by the reverse expansion are released
// (C20, release kernel: the iterator opened here is released on every path — its outermost adapter is stopped by a
// registered defer; the adapters' Stop reaches the wrapped iterator, see pkg/storage)
//@ func (*ReverseExpandQuery).executeQueryJob(c, ctx, job, resultChan, needsCheck) (jobs, err)
//@   property C20
//@   option nosafety
//@   ensures @iteratorReleased opened ==> released
//@   monitor release
//@     ghost cur iface = nil
//@     ghost opened = false
//@     ghost released = false
//@     after call (*reverseexpand.ReverseExpandQuery).buildFilteredIterator returning it, e : opened = e == nil ; cur = it ; released = false
//@     after call storage.NewTupleKeyIteratorFromTupleIterator args x returning r : cur = (x == cur ? r : cur)
//@     after call storage.NewFilteredTupleKeyIterator args x, f returning r : cur = (x == cur ? r : cur)
//@     after call storage.NewConditionsFilteredTupleKeyIterator args x, f returning r : cur = (x == cur ? r : cur)
//@     after call defer:storage.Iterator.Stop | defer:storage.TupleKeyIterator.Stop | defer:storage.TupleIterator.Stop args recv : released = released || recv == cur

// ------------------------------------------------------------------ C19: no-panic sweep (thin, safety-only contracts)
// every index and slice expression of these functions is in range for ALL inputs, with no precondition (generated by
// bin/sweepgen, kept because every obligation discharges; callees without contract are treated as arbitrary)
//@ func (*ReverseExpandQuery).intersectionHandler(recv, a0, a1, a2, a3, a4, a5) (r0)
//@   property C19
//@   option nosafety
//@   option safety slice,index
