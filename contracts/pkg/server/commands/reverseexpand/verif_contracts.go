//go:build verif

// Contracts for package reverseexpand, checked by /verif/govc. Comment-only; compiled only under the build tag "verif".
package reverseexpand

// "no object is returned twice": a candidate is sent only the first time its id is recorded in the per-request
// candidate set (LoadOrStore reports "not loaded"), as exactly this object, flagged for further evaluation exactly
// when an intersection or exclusion lies on the path
//@ func (*ReverseExpandQuery).trySendCandidate(c, ctx, intersectionOrExclusionInPreviousEdges, candidateObject, candidateChan)
//@   property C05
//@   option nosafety
//@   option defer_neutral
//@   monitor dedup
//@     ghost recorded = false
//@     ghost firstTime = false
//@     after call (*sync.Map).LoadOrStore args m, k, v returning a, loaded : recorded = typeIs(k, "string") && as(k, "string") == candidateObject ; firstTime = !loaded
//@     before call concurrency.TrySendThroughChannel args _, v, ch : assert recorded && firstTime && v != nil && v.Object == candidateObject && v.ResultStatus == (intersectionOrExclusionInPreviousEdges ? reverseexpand.RequiresFurtherEvalStatus : reverseexpand.NoFurtherEvalStatus) && ch == candidateChan
