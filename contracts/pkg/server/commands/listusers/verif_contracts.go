//go:build verif

// Contracts for package listusers, checked by /verif/govc. Comment-only; compiled only under the build tag "verif".
package listusers

// every sub-problem request of ListUsers (the initial one and every clone) carries the original request's store, model,
// object, relation, user filters, contextual tuples, context and consistency preference
//@ func fromListUsersRequest(o, dispatchCount) (r)
//@   property C10 C04
//@   option nosafety
//@   ensures @allFields r != nil && r.ListUsersRequest != nil && sidC && r.ListUsersRequest.StoreId == sid && midC && r.ListUsersRequest.AuthorizationModelId == mid && objC && r.ListUsersRequest.Object == obj && relC && r.ListUsersRequest.Relation == rel && ufC && r.ListUsersRequest.UserFilters == uf && ctsC && r.ListUsersRequest.ContextualTuples == cts && cxC && r.ListUsersRequest.Context == cx && consC && r.ListUsersRequest.Consistency == cons
//@   monitor fields
//@     ghost sidC = false
//@     ghost sid string = ""
//@     ghost midC = false
//@     ghost mid string = ""
//@     ghost objC = false
//@     ghost obj *openfgav1.Object = nil
//@     ghost relC = false
//@     ghost rel string = ""
//@     ghost ufC = false
//@     ghost uf []*openfgav1.UserTypeFilter = uf
//@     ghost ctsC = false
//@     ghost cts []*openfgav1.TupleKey = cts
//@     ghost cxC = false
//@     ghost cx *structpb.Struct = nil
//@     ghost consC = false
//@     ghost cons int = 0
//@     after call listusers.listUsersRequest.GetStoreId returning s : sidC = true ; sid = s
//@     after call listusers.listUsersRequest.GetAuthorizationModelId returning s : midC = true ; mid = s
//@     after call listusers.listUsersRequest.GetObject returning s : objC = true ; obj = s
//@     after call listusers.listUsersRequest.GetRelation returning s : relC = true ; rel = s
//@     after call listusers.listUsersRequest.GetUserFilters returning s : ufC = true ; uf = s
//@     after call listusers.listUsersRequest.GetContextualTuples returning s : ctsC = true ; cts = s
//@     after call listusers.listUsersRequest.GetContext returning s : cxC = true ; cx = s
//@     after call listusers.listUsersRequest.GetConsistency returning s : consC = true ; cons = s
