//go:build verif

// Contracts for package commands, checked by /verif/govc. Comment-only; compiled only under the build tag "verif".
package commands

// ------------------------------------------------------------------ Write (C18, C12)

//@ func parseOptionOnDuplicate(wr) (opt, err)
//@   property C12
//@   option nosafety
//@   modifies nothing
//@   ensures @error (wr.GetOnDuplicate() == "" || wr.GetOnDuplicate() == "error") ==> opt == storage.OnDuplicateInsertError && err == nil
//@   ensures @ignore wr.GetOnDuplicate() == "ignore" ==> opt == storage.OnDuplicateInsertIgnore && err == nil
//@   ensures @invalid !(wr.GetOnDuplicate() == "" || wr.GetOnDuplicate() == "error" || wr.GetOnDuplicate() == "ignore") ==> err != nil

//@ func parseOptionOnMissing(wr) (opt, err)
//@   property C12
//@   option nosafety
//@   modifies nothing
//@   ensures @error (wr.GetOnMissing() == "" || wr.GetOnMissing() == "error") ==> opt == storage.OnMissingDeleteError && err == nil
//@   ensures @ignore wr.GetOnMissing() == "ignore" ==> opt == storage.OnMissingDeleteIgnore && err == nil
//@   ensures @invalid !(wr.GetOnMissing() == "" || wr.GetOnMissing() == "error" || wr.GetOnMissing() == "ignore") ==> err != nil

// "it is not a userset pointing at itself"
//@ func (*WriteCommand).validateNotImplicit(c, tk) (err)
//@   property C18
//@   option nosafety
//@   modifies nothing
//@   ensures @implicit err == nil ==> !(tk.GetRelation() == tuple.SplitObjectRelation(tk.GetUser()).1 && tk.GetObject() == tuple.SplitObjectRelation(tk.GetUser()).0)
//@   ensures @notImplicit !(tk.GetRelation() == tuple.SplitObjectRelation(tk.GetUser()).1 && tk.GetObject() == tuple.SplitObjectRelation(tk.GetUser()).0) ==> err == nil

// "A rejected write changes nothing": the datastore is written only after validation and option parsing succeeded,
// with exactly the request's store, deletes, writes.
//@ func (*WriteCommand).Execute(c, ctx, req) (res, err)
//@   property C18 C12
//@   option nosafety
//@   option stable req
//@   ensures @rejectedUntouched !validated ==> !written
//@   monitor validateBeforeWrite
//@     ghost validated = false
//@     ghost dupOK = false
//@     ghost missOK = false
//@     ghost written = false
//@     after call (*commands.WriteCommand).validateWriteRequest args _, _, r returning e : validated = e == nil && r == req
//@     after call commands.parseOptionOnDuplicate returning o, e : dupOK = e == nil
//@     after call commands.parseOptionOnMissing returning o, e : missOK = e == nil
//@     before call storage.OpenFGADatastore.Write args _, _, st, dels, wrs : assert validated && dupOK && missOK && st == req.GetStoreId() && dels == req.GetDeletes().GetTupleKeys() && wrs == req.GetWrites().GetTupleKeys()
//@     after call storage.OpenFGADatastore.Write returning e : written = true

// ------------------------------------------------------------------ Check command wiring (C10, C11)
// the consistency preference and the cache controller's invalidation time reach the resolver unchanged; the
// controller is not consulted for HIGHER_CONSISTENCY
//@ func (*CheckQuery).Execute(c, ctx, params) (res, err)
//@   property C10 C11
//@   option nosafety
//@   option stable params
//@   monitor wiring
//@     ghost detCalled = false
//@     ghost detTime S_time.Time = detTime
//@     ghost reqMade ref = nil
//@     before call cachecontroller.CacheController.DetermineInvalidationTime args _, _, st : assert params.Consistency != openfgav1.ConsistencyPreference_HIGHER_CONSISTENCY && st == params.StoreID
//@     after call cachecontroller.CacheController.DetermineInvalidationTime returning t : detCalled = true ; detTime = t
//@     before call graph.NewResolveCheckRequest args p : assert p.Consistency == params.Consistency && p.StoreID == params.StoreID && p.Context == params.Context && (params.Consistency != openfgav1.ConsistencyPreference_HIGHER_CONSISTENCY ==> detCalled && p.LastCacheInvalidationTime == detTime)
//@     after call graph.NewResolveCheckRequest returning r, e : reqMade = r
//@     before call graph.CheckResolver.ResolveCheck args _, _, r : assert r == reqMade

// ------------------------------------------------------------------ ReadChanges (C14): token / type-filter binding
// A non-empty token is used only if it decodes, deserializes, and was issued for this request's type filter; the
// position handed to the backend is the token's; the token returned is issued for this request's type.
//@ func (*ReadChangesQuery).Execute(q, ctx, req) (res, err)
//@   property C14
//@   option nosafety
//@   option stable req
//@   monitor tokenBinding
//@     ghost decoded = false
//@     ghost tokenStr string = ""
//@     ghost desCalled = false
//@     ghost desErr error = nil
//@     ghost desUlid string = ""
//@     ghost desType string = ""
//@     ghost contUlid string = ""
//@     after call encoder.Encoder.Decode returning b, e : decoded = e == nil ; tokenStr = bytes(b)
//@     before call encoder.ContinuationTokenSerializer.Deserialize args _, t : assert decoded && t == tokenStr && t != ""
//@     after call encoder.ContinuationTokenSerializer.Deserialize returning u, t, e : desCalled = true ; desErr = e ; desUlid = u ; desType = t
//@     before call storage.ChangelogBackend.ReadChanges args _, _, st, f, o : assert decoded && st == req.GetStoreId() && f.ObjectType == req.GetType() && (tokenStr != "" ==> desCalled && desErr == nil && desType == req.GetType() && o.Pagination.From == desUlid)
//@     after call storage.ChangelogBackend.ReadChanges returning c, u, e : contUlid = u
//@     before call encoder.ContinuationTokenSerializer.Serialize args _, u, t : assert u == contUlid && t == req.GetType()
