//go:build verif

// Contracts for package commands, checked by /verif/govc. Comment-only; compiled only under the build tag "verif".
package commands

// ------------------------------------------------------------------ Write (C18, C12)

//@ func parseOptionOnDuplicate(wr) (opt, err)
//@   property C12
//@   option nosafety
//@   modifies nothing
//@   ensures @error (wr.GetOnDuplicate() == "" || wr.GetOnDuplicate() == "error") ==> opt == storage.OnDuplicateInsertError && err == nil
//@   ensures @ignore wr.GetOnDuplicate() == "ignore" ==> opt == storage.OnDuplicateInsertIgnore && err == nil
//@   ensures @invalid !(wr.GetOnDuplicate() == "" || wr.GetOnDuplicate() == "error" || wr.GetOnDuplicate() == "ignore") ==> err != nil

//@ func parseOptionOnMissing(wr) (opt, err)
//@   property C12
//@   option nosafety
//@   modifies nothing
//@   ensures @error (wr.GetOnMissing() == "" || wr.GetOnMissing() == "error") ==> opt == storage.OnMissingDeleteError && err == nil
//@   ensures @ignore wr.GetOnMissing() == "ignore" ==> opt == storage.OnMissingDeleteIgnore && err == nil
//@   ensures @invalid !(wr.GetOnMissing() == "" || wr.GetOnMissing() == "error" || wr.GetOnMissing() == "ignore") ==> err != nil

// "it is not a userset pointing at itself"
//@ func (*WriteCommand).validateNotImplicit(c, tk) (err)
//@   property C18
//@   option nosafety
//@   modifies nothing
//@   ensures @implicit err == nil ==> !(tk.GetRelation() == tuple.SplitObjectRelation(tk.GetUser()).1 && tk.GetObject() == tuple.SplitObjectRelation(tk.GetUser()).0)
//@   ensures @notImplicit !(tk.GetRelation() == tuple.SplitObjectRelation(tk.GetUser()).1 && tk.GetObject() == tuple.SplitObjectRelation(tk.GetUser()).0) ==> err == nil

// "A rejected write changes nothing": the datastore is written only after validation and option parsing succeeded,
// with exactly the request's store, deletes, writes.
//@ func (*WriteCommand).Execute(c, ctx, req) (res, err)
//@   property C18 C12
//@   option nosafety
//@   option stable req
//@   ensures @rejectedUntouched !validated ==> !written
//@   monitor validateBeforeWrite
//@     ghost validated = false
//@     ghost dupOK = false
//@     ghost missOK = false
//@     ghost written = false
//@     after call (*commands.WriteCommand).validateWriteRequest args _, _, r returning e : validated = e == nil && r == req
//@     after call commands.parseOptionOnDuplicate returning o, e : dupOK = e == nil
//@     after call commands.parseOptionOnMissing returning o, e : missOK = e == nil
//@     before call storage.OpenFGADatastore.Write args _, _, st, dels, wrs : assert validated && dupOK && missOK && st == req.GetStoreId() && dels == req.GetDeletes().GetTupleKeys() && wrs == req.GetWrites().GetTupleKeys()
//@     after call storage.OpenFGADatastore.Write returning e : written = true

// a Write request passes validation only if EVERY tuple to write passed tuple validation against the typesystem of the
// model the request names, is not an implicit tuple, and had its condition context measured against the byte limit —
// each in its own iteration, none skipped (counted per loop iteration; the size comparison itself is the branch that
// leaves the loop)
//@ func (*WriteCommand).validateWriteRequest(c, ctx, req) (err)
//@   property C18
//@   option nosafety
//@   option stable req
//@   option stable c
//@   loop 0 invariant $idx < len(writes) && nv == $idx + 1 && ni == $idx + 1 && ns == $idx + 1 && ($idx >= 0 ==> lastN <= c.conditionContextByteLimit) && tsOK
//@   ensures @everyWriteValidated err == nil && len(writes) > 0 ==> tsOK && nv == len(writes) && ni == len(writes) && ns == len(writes)
//@   monitor perTuple
//@     ghost nv int = 0
//@     ghost ni int = 0
//@     ghost ns int = 0
//@     ghost lastN int = 0
//@     ghost tsOK = false
//@     ghost tsys ref = nil
//@     before call storage.AuthorizationModelReadBackend.ReadAuthorizationModel | storage.OpenFGADatastore.ReadAuthorizationModel args _, _, st, id : assert st == req.GetStoreId() && id == req.GetAuthorizationModelId()
//@     after call typesystem.New args m returning t, e : tsys = t ; tsOK = e == nil && m == authModel
//@     after call validation.ValidateTupleForWrite args t, k returning e : nv = (e == nil && t == tsys && k == tk) ? nv + 1 : nv
//@     after call (*commands.WriteCommand).validateNotImplicit args _, k returning e : ni = (e == nil && k == tk) ? ni + 1 : ni
//@     after call proto.Size args m returning n : ns = (as(m, "*structpb.Struct") == pre(tk.GetCondition().GetContext())) ? ns + 1 : ns ; lastN = n

// ------------------------------------------------------------------ Check command wiring (C10, C11)
// the consistency preference and the cache controller's invalidation time reach the resolver unchanged; the
// controller is not consulted for HIGHER_CONSISTENCY
//@ func (*CheckQuery).Execute(c, ctx, params) (res, err)
//@   property C10 C11
//@   option nosafety
//@   option stable params
//@   monitor wiring
//@     ghost detCalled = false
//@     ghost detTime S_time.Time = detTime
//@     ghost reqMade ref = nil
//@     before call cachecontroller.CacheController.DetermineInvalidationTime args _, _, st : assert params.Consistency != openfgav1.ConsistencyPreference_HIGHER_CONSISTENCY && st == params.StoreID
//@     after call cachecontroller.CacheController.DetermineInvalidationTime returning t : detCalled = true ; detTime = t
//@     before call graph.NewResolveCheckRequest args p : assert p.Consistency == params.Consistency && p.StoreID == params.StoreID && p.Context == params.Context && (params.Consistency != openfgav1.ConsistencyPreference_HIGHER_CONSISTENCY ==> detCalled && p.LastCacheInvalidationTime == detTime)
//@     after call graph.NewResolveCheckRequest returning r, e : reqMade = r
//@     before call graph.CheckResolver.ResolveCheck args _, _, r : assert r == reqMade

// ------------------------------------------------------------------ ReadChanges (C14): token / type-filter binding
// A non-empty token is used only if it decodes, deserializes, and was issued for this request's type filter; the
// position handed to the backend is the token's; the token returned is issued for this request's type.
//@ func (*ReadChangesQuery).Execute(q, ctx, req) (res, err)
//@   property C14
//@   option nosafety
//@   option stable req
//@   monitor tokenBinding
//@     ghost decoded = false
//@     ghost tokenStr string = ""
//@     ghost desCalled = false
//@     ghost desErr error = nil
//@     ghost desUlid string = ""
//@     ghost desType string = ""
//@     ghost contUlid string = ""
//@     after call encoder.Encoder.Decode returning b, e : decoded = e == nil ; tokenStr = bytes(b)
//@     before call encoder.ContinuationTokenSerializer.Deserialize args _, t : assert decoded && t == tokenStr && t != ""
//@     after call encoder.ContinuationTokenSerializer.Deserialize returning u, t, e : desCalled = true ; desErr = e ; desUlid = u ; desType = t
//@     before call storage.ChangelogBackend.ReadChanges args _, _, st, f, o : assert decoded && st == req.GetStoreId() && f.ObjectType == req.GetType() && (tokenStr != "" ==> desCalled && desErr == nil && desType == req.GetType() && o.Pagination.From == desUlid)
//@     after call storage.ChangelogBackend.ReadChanges returning c, u, e : contUlid = u
//@     before call encoder.ContinuationTokenSerializer.Serialize args _, u, t : assert u == contUlid && t == req.GetType()

// ------------------------------------------------------------------ BatchCheck (C07)
// The de-duplication key of an item is the Check sub-problem key of exactly its store, tuple (object, relation, user)
// and the invariant key of (store, model, the item's context, the item's contextual tuples): items that differ in any
// of those inputs get the keys CheckCacheKey / InvariantCacheKey give to different inputs (their injectivity is C24).
//@ func generateCacheKeyFromCheck(check, storeID, authModelID) (key)
//@   property C07 C24
//@   option nosafety
//@   ensures @invInputs invCalled && invOK
//@   ensures @keyInputs keyCalled && keyOK
//@   ensures @result key == built
//@   monitor keyInputs
//@     ghost invCalled = false
//@     ghost invOK = false
//@     ghost invKey int = 0
//@     ghost keyCalled = false
//@     ghost keyOK = false
//@     ghost built S_keys.Key = built
//@     after call storage.InvariantCacheKey args s, m, c, tks returning k : invCalled = true ; invKey = k ; invOK = s == storeID && m == authModelID && c == old(check.GetContext()) && tks == old(check.GetContextualTuples().GetTupleKeys())
//@     after call storage.CheckCacheKey args s, o, r, u, inv returning k : keyCalled = true ; built = k ; keyOK = s == storeID && o == old(check.GetTupleKey().GetObject()) && r == old(check.GetTupleKey().GetRelation()) && u == old(check.GetTupleKey().GetUser()) && inv == invKey

// "Every correlation ID receives exactly one outcome": a batch is processed only if every item has a non-empty
// correlation id and no id occurs twice (whatever the items' other fields are).
//@ func validateCorrelationIDs(checks) (err)
//@   property C07
//@   option nosafety
//@   loop 0 invariant forall j int :: 0 <= j && j <= $idx ==> checks[j].GetCorrelationId() != "" && inDom(seen, checks[j].GetCorrelationId())
//@   loop 0 invariant forall j int, k int :: 0 <= j && j < k && k <= $idx ==> checks[j].GetCorrelationId() != checks[k].GetCorrelationId()
//@   ensures @nonEmpty err == nil ==> forall j int :: 0 <= j && j < len(checks) ==> checks[j].GetCorrelationId() != ""
//@   ensures @distinct err == nil ==> forall j int, k int :: 0 <= j && j < k && k < len(checks) ==> checks[j].GetCorrelationId() != checks[k].GetCorrelationId()

// no item is evaluated, and no key is built, unless the whole request passed the size limits and the correlation-id
// validation of exactly this request's items; each item's key is built from this request's store and model
//@ func (*BatchCheckQuery).Execute(bq, ctx, params) (res, meta, err)
//@   property C07
//@   option nosafety
//@   option stable params
//@   ensures @limits err == nil ==> len(old(params.Checks)) >= 1 && len(old(params.Checks)) <= old(bq.maxChecksAllowed)
//@   ensures @validated err == nil ==> validated
//@   monitor validateFirst
//@     ghost validated = false
//@     after call commands.validateCorrelationIDs args cs returning e : validated = e == nil && cs == params.Checks
//@     before call commands.generateCacheKeyFromCheck args c, s, m : assert validated && s == params.StoreID && m == params.AuthorizationModelID
//@     before call concurrency.NewPool : assert validated

// each de-duplicated item is evaluated as the standalone Check of exactly its tuple, contextual tuples and context in
// this request's store with this request's consistency, and the outcome recorded under its key is that Check's
//@ func (*BatchCheckQuery).Execute$1(ctx) (err)
//@   property C07 C10
//@   option nosafety
//@   monitor standalone
//@     ghost executed = false
//@     ghost cres *commands.CheckResult = nil
//@     ghost cerr error = nil
//@     before call commands.Checker.Execute args _, _, p : assert p != nil && p.StoreID == deref(params).StoreID && p.TupleKey == deref(check).GetTupleKey() && p.ContextualTuples == deref(check).GetContextualTuples() && p.Context == deref(check).GetContext() && p.Consistency == deref(params).Consistency
//@     after call commands.Checker.Execute returning r, e : executed = true ; cres = r ; cerr = e
//@     before call (*sync.Map).Store args _, k, v : assert typeIs(k, "keys.Key") && as(k, "keys.Key") == deref(key) && typeIs(v, "*commands.BatchCheckOutcome") && (executed ==> as(v, "*commands.BatchCheckOutcome").Err == cerr && (cres != nil ==> as(v, "*commands.BatchCheckOutcome").Allowed == cres.Allowed))

// ------------------------------------------------------------------ Assertions (C31)
// what is persisted is exactly the request's assertion list under exactly the request's store and model, and only
// after every assertion (and contextual tuple) passed validation against that model
//@ func (*WriteAssertionsCommand).Execute(w, ctx, req) (res, err)
//@   property C31
//@   option nosafety
//@   option stable req
//@   ensures @persisted res != nil ==> written && writeErr == nil && err == nil
//@   monitor verbatim
//@     ghost written = false
//@     ghost writeErr error = nil
//@     ghost modelRead = false
//@     before call storage.OpenFGADatastore.ReadAuthorizationModel args _, _, st, m : assert st == req.GetStoreId() && m == req.GetAuthorizationModelId()
//@     after call storage.OpenFGADatastore.ReadAuthorizationModel returning m, e : modelRead = e == nil
//@     before call storage.OpenFGADatastore.WriteAssertions args _, _, st, m, as : assert modelRead && st == req.GetStoreId() && m == req.GetAuthorizationModelId() && as == req.GetAssertions()
//@     after call storage.OpenFGADatastore.WriteAssertions returning e : written = true ; writeErr = e

//@ func (*ReadAssertionsQuery).Execute(q, ctx, store, authorizationModelID) (res, err)
//@   property C31
//@   option nosafety
//@   ensures @verbatim res != nil ==> err == nil && read && readErr == nil && res.Assertions == got && res.AuthorizationModelId == authorizationModelID
//@   ensures @failClosed read && readErr != nil ==> res == nil
//@   monitor verbatim
//@     ghost read = false
//@     ghost readErr error = nil
//@     ghost got []*openfgav1.Assertion = got
//@     before call storage.AssertionsBackend.ReadAssertions args _, _, st, m : assert st == store && m == authorizationModelID
//@     after call storage.AssertionsBackend.ReadAssertions returning a, e : read = true ; readErr = e ; got = a

// ------------------------------------------------------------------ Expand (C30): the tree mirrors the rewrite
// each rewrite kind is expanded by its own builder, on the same store / object#relation / model / consistency, and
// the node returned is the builder's
//@ func (*ExpandQuery).resolveUserset(q, ctx, store, userset, tk, typesys, consistency) (res, err)
//@   property C30
//@   option nosafety
//@   monitor mirror
//@     before call (*commands.ExpandQuery).resolveThis args _, _, st, t, ts, c : assert (userset.GetUserset() == nil || typeIs(userset.GetUserset(), "*openfgav1.Userset_This")) && st == store && t == tk && ts == typesys && c == consistency
//@     before call (*commands.ExpandQuery).resolveComputedUserset args _, _, us, t : assert typeIs(userset.GetUserset(), "*openfgav1.Userset_ComputedUserset") && us == as(userset.GetUserset(), "*openfgav1.Userset_ComputedUserset").ComputedUserset && t == tk
//@     before call (*commands.ExpandQuery).resolveTupleToUserset args _, _, st, us, t, ts, c : assert typeIs(userset.GetUserset(), "*openfgav1.Userset_TupleToUserset") && us == as(userset.GetUserset(), "*openfgav1.Userset_TupleToUserset").TupleToUserset && st == store && t == tk && ts == typesys && c == consistency
//@     before call (*commands.ExpandQuery).resolveUnionUserset args _, _, st, us, t, ts, c : assert typeIs(userset.GetUserset(), "*openfgav1.Userset_Union") && us == as(userset.GetUserset(), "*openfgav1.Userset_Union").Union && st == store && t == tk && ts == typesys && c == consistency
//@     before call (*commands.ExpandQuery).resolveIntersectionUserset args _, _, st, us, t, ts, c : assert typeIs(userset.GetUserset(), "*openfgav1.Userset_Intersection") && us == as(userset.GetUserset(), "*openfgav1.Userset_Intersection").Intersection && st == store && t == tk && ts == typesys && c == consistency
//@     before call (*commands.ExpandQuery).resolveDifferenceUserset args _, _, st, us, t, ts, c : assert typeIs(userset.GetUserset(), "*openfgav1.Userset_Difference") && us == as(userset.GetUserset(), "*openfgav1.Userset_Difference").Difference && st == store && t == tk && ts == typesys && c == consistency

// union / intersection nodes: named object#relation, children = the expansions of exactly the rewrite's children, in order
//@ func (*ExpandQuery).resolveUnionUserset(q, ctx, store, usersets, tk, typesys, consistency) (res, err)
//@   property C30
//@   option nosafety
//@   ensures @node err == nil ==> res != nil && res.Name == named && typeIs(res.Value, "*openfgav1.UsersetTree_Node_Union") && as(res.Value, "*openfgav1.UsersetTree_Node_Union").Union != nil && as(res.Value, "*openfgav1.UsersetTree_Node_Union").Union.Nodes == nodes && expanded && expErr == nil
//@   monitor children
//@     ghost expanded = false
//@     ghost nodes []*openfgav1.UsersetTree_Node = nodes
//@     ghost expErr error = nil
//@     ghost named string = ""
//@     before call (*commands.ExpandQuery).resolveUsersets args _, _, st, us, t, ts, c : assert st == store && us == usersets.GetChild() && t == tk && ts == typesys && c == consistency
//@     after call (*commands.ExpandQuery).resolveUsersets returning n, e : expanded = true ; nodes = n ; expErr = e
//@     before call commands.toObjectRelation args t : assert t == tk
//@     after call commands.toObjectRelation returning s : named = s

//@ func (*ExpandQuery).resolveIntersectionUserset(q, ctx, store, usersets, tk, typesys, consistency) (res, err)
//@   property C30
//@   option nosafety
//@   ensures @node err == nil ==> res != nil && res.Name == named && typeIs(res.Value, "*openfgav1.UsersetTree_Node_Intersection") && as(res.Value, "*openfgav1.UsersetTree_Node_Intersection").Intersection != nil && as(res.Value, "*openfgav1.UsersetTree_Node_Intersection").Intersection.Nodes == nodes && expanded && expErr == nil
//@   monitor children
//@     ghost expanded = false
//@     ghost nodes []*openfgav1.UsersetTree_Node = nodes
//@     ghost expErr error = nil
//@     ghost named string = ""
//@     before call (*commands.ExpandQuery).resolveUsersets args _, _, st, us, t, ts, c : assert st == store && us == usersets.GetChild() && t == tk && ts == typesys && c == consistency
//@     after call (*commands.ExpandQuery).resolveUsersets returning n, e : expanded = true ; nodes = n ; expErr = e
//@     before call commands.toObjectRelation args t : assert t == tk
//@     after call commands.toObjectRelation returning s : named = s

// difference node: base = expansion of the rewrite's base, subtract = expansion of its subtract (not swapped)
//@ func (*ExpandQuery).resolveDifferenceUserset(q, ctx, store, userset, tk, typesys, consistency) (res, err)
//@   property C30
//@   option nosafety
//@   ensures @node err == nil ==> res != nil && res.Name == named && typeIs(res.Value, "*openfgav1.UsersetTree_Node_Difference") && as(res.Value, "*openfgav1.UsersetTree_Node_Difference").Difference != nil && as(res.Value, "*openfgav1.UsersetTree_Node_Difference").Difference.Base == baseNode && as(res.Value, "*openfgav1.UsersetTree_Node_Difference").Difference.Subtract == subNode && expanded && expErr == nil
//@   monitor children
//@     ghost expanded = false
//@     ghost baseNode *openfgav1.UsersetTree_Node = nil
//@     ghost subNode *openfgav1.UsersetTree_Node = nil
//@     ghost expErr error = nil
//@     ghost named string = ""
//@     before call (*commands.ExpandQuery).resolveUsersets args _, _, st, us, t, ts, c : assert st == store && len(us) == 2 && us[0] == userset.GetBase() && us[1] == userset.GetSubtract() && t == tk && ts == typesys && c == consistency
//@     after call (*commands.ExpandQuery).resolveUsersets returning n, e : expanded = true ; expErr = e ; baseNode = n[0] ; subNode = n[1]
//@     before call commands.toObjectRelation args t : assert t == tk
//@     after call commands.toObjectRelation returning s : named = s

// computed node: the rewrite's object#relation with the expanded object / relation filled in where it leaves them open
//@ func (*ExpandQuery).resolveComputedUserset(q, ctx, userset, tk) (res, err)
//@   property C30 C17
//@   option nosafety
// the rewrite node handed in is the stored model's own node (shared with the typesystem cache and, in memory, the
// datastore): Expand reads it and never writes it
//@   ensures @modelNodeUntouched userset != nil ==> userset.Object == old(userset.Object) && userset.Relation == old(userset.Relation)
//@   ensures @requestUntouched tk != nil ==> tk.Object == old(tk.Object) && tk.Relation == old(tk.Relation) && tk.User == old(tk.User)
//@   ensures @node err == nil && res != nil && res.Name == tuple.ToObjectRelationString(tk.GetObject(), tk.GetRelation()) && typeIs(res.Value, "*openfgav1.UsersetTree_Node_Leaf") && typeIs(as(res.Value, "*openfgav1.UsersetTree_Node_Leaf").Leaf.Value, "*openfgav1.UsersetTree_Leaf_Computed") && as(as(res.Value, "*openfgav1.UsersetTree_Node_Leaf").Leaf.Value, "*openfgav1.UsersetTree_Leaf_Computed").Computed.Userset == tuple.ToObjectRelationString((userset.GetObject() == "" ? tk.GetObject() : userset.GetObject()), (userset.GetRelation() == "" ? tk.GetRelation() : userset.GetRelation()))

// direct-assignment leaf: read exactly object#relation (any user) with the request's consistency, keep only tuples that
// are valid for the model in use, list the users sorted
// (C20, release kernel: the datastore iterator opened here is released on every path — the outermost adapter built over
// it is stopped by a registered defer, and the adapters' Stop reaches the wrapped iterator, see pkg/storage)
//@ func (*ExpandQuery).resolveThis(q, ctx, store, tk, typesys, consistency) (res, err)
//@   property C30 C20
// "... list, sorted and without duplicates": the users are collected from the key set of a map (a map range yields
// every key at most once): they are pairwise distinct when handed to the sort, which only permutes them
//@   loop 1 invariant (forall a int :: 0 <= a && a < len(users) ==> $seen[users[a]]) && (forall a int, b int :: 0 <= a && a < b && b < len(users) ==> users[a] != users[b])
//@   monitor dedup
//@     before call slices.Sort args x : assert x == users && (forall a int, b int :: 0 <= a && a < b && b < len(x) ==> x[a] != x[b])
//@   option monitor_props release=C20
//@   ensures @iteratorReleased opened ==> released
//@   monitor release
//@     ghost cur iface = nil
//@     ghost opened = false
//@     ghost released = false
//@     after call storage.RelationshipTupleReader.Read | storage.OpenFGADatastore.Read returning it, e : opened = e == nil ; cur = it ; released = false
//@     after call storage.NewTupleKeyIteratorFromTupleIterator args x returning r : cur = (x == cur ? r : cur)
//@     after call storage.NewFilteredTupleKeyIterator args x, f returning r : cur = (x == cur ? r : cur)
//@     after call defer:storage.Iterator.Stop | defer:storage.TupleKeyIterator.Stop | defer:storage.TupleIterator.Stop args recv : released = released || recv == cur
//@   option nosafety
//@   option defer_neutral
//@   monitor leaf
//@     ghost readIt iface = nil
//@     ghost keyIt iface = nil
//@     ghost validFilter ref = nil
//@     ghost filterMade = false
//@     ghost sorted = false
//@     before call storage.RelationshipTupleReader.Read args _, _, st, f, o : assert st == store && f.Object == tk.GetObject() && f.Relation == tk.GetRelation() && f.User == tk.GetUser() && o.Consistency.Preference == consistency
//@     after call storage.RelationshipTupleReader.Read returning it, e : readIt = it
//@     before call storage.NewTupleKeyIteratorFromTupleIterator args it : assert it == readIt
//@     after call storage.NewTupleKeyIteratorFromTupleIterator returning k : keyIt = k
//@     before call validation.FilterInvalidTuples args ts : assert ts == typesys
//@     after call validation.FilterInvalidTuples returning f : validFilter = f ; filterMade = true
//@     before call storage.NewFilteredTupleKeyIterator args it, f : assert it == keyIt && filterMade && f == validFilter
//@     after call slices.Sort args x : sorted = true

// tuple-to-userset leaf: read the tupleset relation on the expanded object, keep only tuples valid for the model
//@ func (*ExpandQuery).resolveTupleToUserset(q, ctx, store, userset, tk, typesys, consistency) (res, err)
//@   property C30 C20
//@   option monitor_props release=C20
//@   ensures @iteratorReleased opened ==> released
//@   monitor release
//@     ghost cur iface = nil
//@     ghost opened = false
//@     ghost released = false
//@     after call storage.RelationshipTupleReader.Read | storage.OpenFGADatastore.Read returning it, e : opened = e == nil ; cur = it ; released = false
//@     after call storage.NewTupleKeyIteratorFromTupleIterator args x returning r : cur = (x == cur ? r : cur)
//@     after call storage.NewFilteredTupleKeyIterator args x, f returning r : cur = (x == cur ? r : cur)
//@     after call defer:storage.Iterator.Stop | defer:storage.TupleKeyIterator.Stop | defer:storage.TupleIterator.Stop args recv : released = released || recv == cur
//@   option nosafety
//@   option defer_neutral
//@   monitor leaf
//@     ghost readIt iface = nil
//@     ghost keyIt iface = nil
//@     ghost validFilter ref = nil
//@     ghost filterMade = false
//@     before call storage.RelationshipTupleReader.Read args _, _, st, f, o : assert st == store && f.Object == tk.GetObject() && f.Relation == (userset.GetTupleset().GetRelation() == "" ? tk.GetRelation() : userset.GetTupleset().GetRelation()) && f.User == "" && o.Consistency.Preference == consistency
//@     after call storage.RelationshipTupleReader.Read returning it, e : readIt = it
//@     before call storage.NewTupleKeyIteratorFromTupleIterator args it : assert it == readIt
//@     after call storage.NewTupleKeyIteratorFromTupleIterator returning k : keyIt = k
//@     before call validation.FilterInvalidTuples args ts : assert ts == typesys
//@     after call validation.FilterInvalidTuples returning f : validFilter = f ; filterMade = true
//@     before call storage.NewFilteredTupleKeyIterator args it, f : assert it == keyIt && filterMade && f == validFilter

// every child is expanded by resolveUserset on the same store / key / model / consistency and lands at its own index
//@ func (*ExpandQuery).resolveUsersets$1() (err)
//@   property C30
//@   option nosafety
//@   monitor child
//@     before call (*commands.ExpandQuery).resolveUserset args _, _, st, u, t, ts, c : assert st == deref(store) && u == deref(us) && t == deref(tk) && ts == deref(typesys) && c == deref(consistency)

// ------------------------------------------------------------------ WriteAuthorizationModel (C17)
// a model is persisted only after it passed validation, under the request's store, with an identifier taken from the
// process-wide monotonic ULID source (ulid.Make: identifiers increase with every call), and the identifier returned
// is the identifier stored
//@ func (*WriteAuthorizationModelCommand).Execute(w, ctx, req) (res, err)
//@   property C17
//@   option nosafety
//@   option stable req
//@   ensures @idReturned res != nil ==> err == nil && written && writeErr == nil && res.AuthorizationModelId == writtenID
//@   monitor validateThenPersist
//@     ghost made = false
//@     ghost uid string = ""
//@     ghost idStr string = ""
//@     ghost idFromMake = false
//@     ghost validated = false
//@     ghost validatedModel *openfgav1.AuthorizationModel = nil
//@     ghost written = false
//@     ghost writeErr error = nil
//@     ghost writtenID string = ""
//@     after call github.com/oklog/ulid/v2.Make returning u : made = true ; uid = u
//@     after call (github.com/oklog/ulid/v2.ULID).String args u returning s : idStr = s ; idFromMake = made && u == uid
//@     before call typesystem.NewAndValidate args _, m : assert m != nil && idFromMake
//@     before call typesystem.NewAndValidate args _, m : assert m.GetId() == idStr
//@     before call typesystem.NewAndValidate args _, m : assert m.TypeDefinitions == req.GetTypeDefinitions() && m.Conditions == req.GetConditions()
//@     after call typesystem.NewAndValidate args _, m returning t, e : validated = e == nil ; validatedModel = m
//@     before call storage.TypeDefinitionWriteBackend.WriteAuthorizationModel args _, _, st, m : assert validated && m == validatedModel && st == req.GetStoreId()
//@     after call storage.TypeDefinitionWriteBackend.WriteAuthorizationModel args _, _, st, m returning e : written = true ; writeErr = e ; writtenID = m.GetId()

// ------------------------------------------------------------------ ListObjects (C05, C10): limit gate and confirmation by Check
// an object is sent only after a slot was reserved by adding exactly one to the shared counter and the reservation is
// within the limit (0 = no limit); what is sent is exactly this object on the results channel
//@ func trySendObject(ctx, object, objectsFound, maxResults, resultsChan)
//@   property C05
//@   option nosafety
//@   monitor limit
//@     ghost reserved = false
//@     ghost slot int = 0
//@     after call (*atomic.Uint32).Add args c, d returning n : reserved = c == objectsFound && d == 1 ; slot = n
//@     before call concurrency.TrySendThroughChannel args _, v, ch : assert (maxResults != 0 ==> reserved && slot <= maxResults) && v.ObjectID == object && v.Err == nil && ch == resultsChan

// (C11, monitor invalidationWiring) the confirmation Check must be built with the query's shared cache resources, so that
// its CheckQuery consults the cache controller for the last invalidation time; on the pinned tree it is not (known
// finding: ListObjects' inner Checks run with the no-op controller and never see invalidations of the query cache).
// a candidate that needs further evaluation is returned only if the Check of exactly (candidate object, the request's
// relation and user) in the request's store, with the request's contextual tuples, context and consistency, succeeded
// and allowed it
//@ func (*ListObjectsQuery).evaluate$1$2(ctx) (err)
//@   property C05 C10 C11
//@   option nosafety
//@   option monitor_props invalidationWiring=C11
//@   monitor invalidationWiring
//@     ghost cacheOptMade = false
//@     ghost cacheOpt ref = nil
//@     after call commands.WithCheckCommandCache args r, st returning o : cacheOptMade = r == deref(q).sharedDatastoreResources ; cacheOpt = o
//@     before call commands.NewCheckCommand args ds, cr, ts, opts : assert cacheOptMade && (exists i int :: 0 <= i && i < len(opts) && opts[i] == cacheOpt)
//@   monitor confirm
//@     ghost sidC = false
//@     ghost sid string = ""
//@     ghost relC = false
//@     ghost rel string = ""
//@     ghost usrC = false
//@     ghost usr string = ""
//@     ghost ctsC = false
//@     ghost cts *openfgav1.ContextualTupleKeys = nil
//@     ghost cxC = false
//@     ghost cx *structpb.Struct = nil
//@     ghost consC = false
//@     ghost cons int = 0
//@     ghost tkBuilt = false
//@     ghost tk *openfgav1.CheckRequestTupleKey = nil
//@     ghost executed = false
//@     ghost execRes *commands.CheckResult = nil
//@     ghost execErr error = nil
//@     after call commands.listObjectsRequest.GetStoreId returning s : sidC = true ; sid = s
//@     after call commands.listObjectsRequest.GetRelation returning s : relC = true ; rel = s
//@     after call commands.listObjectsRequest.GetUser returning s : usrC = true ; usr = s
//@     after call commands.listObjectsRequest.GetContextualTuples returning s : ctsC = true ; cts = s
//@     after call commands.listObjectsRequest.GetContext returning s : cxC = true ; cx = s
//@     after call commands.listObjectsRequest.GetConsistency returning s : consC = true ; cons = s
//@     before call tuple.NewCheckRequestTupleKey args o, r, u : assert o == deref(res).Object && relC && r == rel && usrC && u == usr
//@     after call tuple.NewCheckRequestTupleKey returning t : tkBuilt = true ; tk = t
//@     before call (*commands.CheckQuery).Execute args _, _, p : assert p != nil && sidC && p.StoreID == sid && tkBuilt && p.TupleKey == tk && ctsC && p.ContextualTuples == cts && cxC && p.Context == cx && consC && p.Consistency == cons
//@     after call (*commands.CheckQuery).Execute returning r, e : executed = true ; execRes = r ; execErr = e
//@     before call commands.trySendObject args _, o, cnt, mx, ch : assert executed && execErr == nil && execRes != nil && execRes.Allowed && o == deref(res).Object && cnt == objectsFound && mx == deref(maxResults) && ch == deref(resultsChan)

// the candidate search of ListObjects runs with the request's store, contextual tuples, context and consistency
//@ func (*ListObjectsQuery).evaluate$1$1(ctx) (err)
//@   property C10 C04 C05
//@   option nosafety
//@   monitor wiring
//@     ghost sidC = false
//@     ghost sid string = ""
//@     ghost cxC = false
//@     ghost cx *structpb.Struct = nil
//@     ghost consC = false
//@     ghost cons int = 0
//@     ghost ctsC = false
//@     ghost cts *openfgav1.ContextualTupleKeys = nil
//@     after call commands.listObjectsRequest.GetStoreId returning s : sidC = true ; sid = s
//@     after call commands.listObjectsRequest.GetContextualTuples returning s : ctsC = true ; cts = s
//@     after call commands.listObjectsRequest.GetContext returning s : cxC = true ; cx = s
//@     after call commands.listObjectsRequest.GetConsistency returning s : consC = true ; cons = s
//@     before call (*reverseexpand.ReverseExpandQuery).Execute args _, _, r, ch, md : assert r != nil && sidC && r.StoreID == sid && ctsC && r.ContextualTuples == cts.GetTupleKeys() && cxC && r.Context == cx && consC && r.Consistency == cons && r.ObjectType == deref(targetObjectType) && r.Relation == deref(targetRelation)

// ------------------------------------------------------------------ ListStores (C26, C14)
// "ListStores returns only stores the caller may get": storeIDs is nil when access control is off (no restriction) and
// the list of accessible store ids when it is on; an EMPTY list means the caller may get no store, so nothing may be
// listed (the backends treat an empty id list as "no filter"). Otherwise the backend is asked for exactly these ids,
// this name filter, this page size and the decoded token, and its stores are returned with the re-encoded token.
//@ func (*ListStoresQuery).Execute(q, ctx, req, storeIDs) (res, err)
//@   property C26 C14
//@   option nosafety
//@   option stable req
//@   ensures @noAccessListsNothing storeIDs != nil && len(storeIDs) == 0 && res != nil ==> len(res.Stores) == 0 && !listed
//@   ensures @backendStores listed && res != nil ==> listErr == nil && res.Stores == got
//@   monitor filter
//@     ghost decodedOK = false
//@     ghost tokenStr string = ""
//@     ghost listed = false
//@     ghost got []*openfgav1.Store = got
//@     ghost listErr error = nil
//@     after call encoder.Encoder.Decode returning b, e : decodedOK = e == nil ; tokenStr = bytes(b)
//@     before call storage.StoresBackend.ListStores args _, _, o : assert decodedOK && o.IDs == storeIDs && o.Name == req.GetName()
//@     after call storage.StoresBackend.ListStores returning s, t, e : listed = true ; got = s ; listErr = e

// ------------------------------------------------------------------ Read (C14, C10): token plumbing of the paginated tuple read
// a non-empty token is used only if it decodes and deserializes; the position handed to the backend is the token's; the
// filter is the request's tuple key, the page size and consistency the request's; the token returned is the backend's
// next position, serialized and encoded (empty when the backend reports no further page)
//@ func (*ReadQuery).Execute(q, ctx, req) (res, err)
//@   property C14 C10
//@   option nosafety
//@   option stable req
//@   ensures @lastPage res != nil && paged && contUlid == "" ==> res.ContinuationToken == "" && res.Tuples == got
//@   ensures @nextPage res != nil && paged && contUlid != "" ==> serialized && encoded && res.ContinuationToken == encodedTok && res.Tuples == got
//@   monitor token
//@     ghost decoded = false
//@     ghost tokenStr string = ""
//@     ghost desCalled = false
//@     ghost desErr error = nil
//@     ghost desFrom string = ""
//@     ghost paged = false
//@     ghost got []*openfgav1.Tuple = got
//@     ghost contUlid string = ""
//@     ghost serialized = false
//@     ghost serTok string = ""
//@     ghost encoded = false
//@     ghost encodedTok string = ""
//@     after call encoder.Encoder.Decode returning b, e : decoded = e == nil ; tokenStr = bytes(b)
//@     before call encoder.ContinuationTokenSerializer.Deserialize args _, t : assert decoded && t == tokenStr && t != ""
//@     after call encoder.ContinuationTokenSerializer.Deserialize returning u, t, e : desCalled = true ; desErr = e ; desFrom = u
//@     before call storage.OpenFGADatastore.ReadPage | storage.RelationshipTupleReader.ReadPage args _, _, st, f, o : assert decoded && st == req.GetStoreId() && o.Consistency.Preference == req.GetConsistency() && o.Pagination.PageSize == (req.GetPageSize().GetValue() > 0 ? req.GetPageSize().GetValue() : storage.DefaultPageSize) && (tokenStr != "" ==> desCalled && desErr == nil && o.Pagination.From == desFrom) && (tokenStr == "" ==> o.Pagination.From == "") && (req.GetTupleKey() != nil ==> f.Object == req.GetTupleKey().GetObject() && f.Relation == req.GetTupleKey().GetRelation() && f.User == req.GetTupleKey().GetUser()) && (req.GetTupleKey() == nil ==> f.Object == "" && f.Relation == "" && f.User == "")
//@     after call storage.OpenFGADatastore.ReadPage | storage.RelationshipTupleReader.ReadPage returning ts, u, e : paged = e == nil ; got = ts ; contUlid = u
//@     before call encoder.ContinuationTokenSerializer.Serialize args _, u, t : assert paged && u == contUlid && t == ""
//@     after call encoder.ContinuationTokenSerializer.Serialize returning b, e : serialized = e == nil ; serTok = bytes(b)
//@     before call encoder.Encoder.Encode args _, b : assert serialized && bytes(b) == serTok
//@     after call encoder.Encoder.Encode returning s, e : encoded = e == nil ; encodedTok = s

// ------------------------------------------------------------------ C03: which weighted-graph errors are final
// a weighted-graph error ends the request (no fall-back to the default engine) exactly when it is a deadline /
// cancellation / throttling error or carries the validation_error / invalid_tuple code (the documented request-shape
// rejections); every other error falls back
//@ func IsV2CheckTerminalError(err) (b)
//@   property C03
//@   option nosafety
//@   ensures @exactly b <==> (errIs(err, context.DeadlineExceeded) || errIs(err, context.Canceled) || errIs(err, errors.ErrRequestDeadlineExceeded) || errIs(err, errors.ErrRequestCancelled) || errIs(err, errors.ErrThrottledTimeout) || errIs(err, errors.ErrTransactionThrottled) || (fromCalled && fromOK && (code == openfgav1.ErrorCode_validation_error || code == openfgav1.ErrorCode_invalid_tuple)))
//@   monitor grpcCode
//@     ghost fromCalled = false
//@     ghost fromOK = false
//@     ghost code int = 0
//@     after call status.FromError args e returning st, ok : fromCalled = e == err ; fromOK = ok
//@     after call (*status.Status).Code returning c : code = c

// ------------------------------------------------------------------ C19: no-panic sweep (thin, safety-only contracts)
// every index and slice expression of these functions is in range for ALL inputs, with no precondition (generated by
// bin/sweepgen, kept because every obligation discharges; callees without contract are treated as arbitrary)
//@ func (*WriteCommand).validateNoDuplicatesAndCorrectSize(recv, a0, a1) (r0)
//@   property C19
//@   option nosafety
//@   option safety slice,index

//@ func keyMapFromSlice(a0) (r0)
//@   property C19
//@   option nosafety
//@   option safety slice,index
