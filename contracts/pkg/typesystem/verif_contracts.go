//go:build verif

// Contracts for package typesystem, checked by /verif/govc. Comment-only; compiled only under the build tag "verif".
package typesystem

//@ property C18

// ghost view of the model: the typesystem's maps
//@ spec typeDefined(t ref, ot string) bool = inDom(t.typeDefinitions, ot)
//@ spec relationOf(t ref, ot string, rel string) ref = t.relations[ot][rel]
//@ spec relationDefined(t ref, ot string, rel string) bool = typeDefined(t, ot) && inDom(t.relations[ot], rel)
//@ spec restrictionsOf(t ref, ot string, rel string) slice = relationOf(t, ot, rel).GetTypeInfo().GetDirectlyRelatedUserTypes()

//@ func (*TypeSystem).GetRelations(t, objectType) (rels, err)
//@   option nosafety
//@   modifies nothing
//@   ensures @defined typeDefined(t, objectType) ==> err == nil && rels == t.relations[objectType]
//@   ensures @undefined !typeDefined(t, objectType) ==> err != nil && rels == nil

//@ func (*TypeSystem).GetRelation(t, objectType, relation) (r, err)
//@   option nosafety
//@   modifies nothing
//@   ensures @defined relationDefined(t, objectType, relation) ==> err == nil && r == relationOf(t, objectType, relation)
//@   ensures @undefined !relationDefined(t, objectType, relation) ==> err != nil && r == nil

//@ func (*TypeSystem).GetDirectlyRelatedUserTypes(t, objectType, relation) (res, err)
//@   option nosafety
//@   modifies nothing
//@   ensures @defined relationDefined(t, objectType, relation) ==> err == nil && res == restrictionsOf(t, objectType, relation)
//@   ensures @undefined !relationDefined(t, objectType, relation) ==> err != nil && res == nil

// ------------------------------------------------------------------ C16 / C17: model resolution is scoped by store and by the resolved model id
// The singleflight keys that collapse concurrent lookups name the store (and, for a read by id, the model), so a lookup
// for one store can never be answered by a concurrent lookup for another; the typesystem cache key is ("TS", store,
// resolved model id); a request without a model id resolves to the store's latest model id; what is cached and
// returned on a miss is the validated typesystem of exactly the model looked up.
//@ func MemoizedTypesystemResolverFunc$1(ctx, storeID, modelID) (ts, err)
//@   property C16 C17
//@   option nosafety
//@   option defer_neutral
//@   ensures @latestWhenOmitted err == nil && modelID == "" ==> latestCalled
//@   ensures @missValidates err == nil && !served ==> validated && ts == validatedTS && cachedTS == validatedTS
//@   monitor scoped
//@     ghost latestCalled = false
//@     ghost nEnc int = 0
//@     ghost encOK = true
//@     ghost lookedUp iface = nil
//@     ghost served = false
//@     ghost validated = false
//@     ghost validatedTS *typesystem.TypeSystem = nil
//@     ghost cachedTS *typesystem.TypeSystem = nil
//@     before call (*singleflight.Group).Do args _, k, f : assert (closureOf(f, "MemoizedTypesystemResolverFunc$1$2") && hasSuffix(k, ":" + deref(addrOf(storeID))) && closureBinds(f, 2, addrOf(storeID))) || (closureOf(f, "MemoizedTypesystemResolverFunc$1$3") && hasSuffix(k, ":" + deref(addrOf(storeID)) + "/" + deref(addrOf(modelID))) && closureBinds(f, 2, addrOf(storeID)) && closureBinds(f, 3, addrOf(modelID)))
//@     after call (*singleflight.Group).Do args _, k, f returning v, e, sh : lookedUp = v ; latestCalled = latestCalled || closureOf(f, "MemoizedTypesystemResolverFunc$1$2")
//@     before call (*keys.Builder).EncodeString args _, s : assert (nEnc == 0 ==> s == "TS") && (nEnc == 1 ==> s == deref(addrOf(storeID))) && (nEnc == 2 ==> (modelID != "" ==> s == modelID) && (modelID == "" ==> typeIs(lookedUp, "*openfgav1.AuthorizationModel") && s == as(lookedUp, "*openfgav1.AuthorizationModel").GetId())) && nEnc <= 2
//@     after call (*keys.Builder).EncodeString args _, s : nEnc = nEnc + 1
//@     before call (*keys.Builder).Key : assert nEnc == 3
//@     after call (storage.InMemoryLRUCache*).Get returning it : served = it != nil
//@     before call typesystem.NewAndValidate args _, m : assert typeIs(lookedUp, "*openfgav1.AuthorizationModel") && m == as(lookedUp, "*openfgav1.AuthorizationModel")
//@     after call typesystem.NewAndValidate returning t, e : validated = e == nil ; validatedTS = t
//@     after call (storage.InMemoryLRUCache*).Set args _, k, v, ttl : cachedTS = v

// the lookups themselves ask the datastore for exactly this store (and model)
//@ func MemoizedTypesystemResolverFunc$1$2() (v, err)
//@   property C16 C17
//@   option nosafety
//@   monitor scoped
//@     before call storage.AuthorizationModelReadBackend.FindLatestAuthorizationModel args _, _, st : assert st == deref(storeID)

//@ func MemoizedTypesystemResolverFunc$1$3() (v, err)
//@   property C16 C17
//@   option nosafety
//@   monitor scoped
//@     before call storage.AuthorizationModelReadBackend.ReadAuthorizationModel args _, _, st, m : assert st == deref(storeID) && m == deref(modelID)

// ------------------------------------------------------------------ C01 / C02: eligibility of the weight-two fast path for a tuple-to-userset
// the fast path may be chosen only if NO matching TTU edge inspected on the way weighs more than 2 for the user type
// (one cheap parent type does not make a TTU with a heavier parent type eligible)
//@ func (*TypeSystem).TTUUseWeight2Resolver(t, objectType, relation, userType, ttu) (b)
//@   property C01 C02
//@   option nosafety
//@   loop 0 invariant !heavy
//@   loop 1 invariant !heavy
//@   ensures @noHeavyParent b ==> !heavy
//@   monitor weights
//@     ghost heavy = false
//@     after call (*graph.WeightedAuthorizationModelEdge).GetWeight args e, ut returning w, ok : heavy = heavy || (ok && w > 2)

// ------------------------------------------------------------------ C19: a validated rewrite has no empty set operator
// (internal/graph indexes the first child of an intersection, the list engines recurse over children: an operator
// without operands must be rejected by validation, wherever it is nested — the function recurses through every child)
//@ func (*TypeSystem).isUsersetRewriteValid(t, objectType, relation, rewrite) (err)
//@   property C19 C17
//@   option nosafety
//@   ensures @unionHasOperands err == nil && typeIs(old(rewrite.GetUserset()), "*openfgav1.Userset_Union") ==> len(old(as(rewrite.GetUserset(), "*openfgav1.Userset_Union").Union.GetChild())) >= 1
//@   ensures @intersectionHasOperands err == nil && typeIs(old(rewrite.GetUserset()), "*openfgav1.Userset_Intersection") ==> len(old(as(rewrite.GetUserset(), "*openfgav1.Userset_Intersection").Intersection.GetChild())) >= 1

// ------------------------------------------------------------------ C17 / C18: type restrictions of a validated relation
// validation passes only if EVERY type restriction of the relation names a defined type, a userset restriction names a
// defined relation of that type, and a restriction that carries a condition names a condition defined in the model —
// for plain, wildcard and userset restrictions alike (tuple validation later trusts the restriction's condition name)
//@ func (*TypeSystem).IsTuplesetRelation(t, objectType, relation) (b, err)
//@   property C17 C18
//@   option nosafety
//@   modifies nothing

//@ func (*TypeSystem).validateTypeRestrictions(t, objectType, relationName) (err)
//@   property C17 C18
//@   option nosafety
//@   option stable t
//@   loop 0 invariant forall j int :: 0 <= j && j <= $idx ==> typeDefined(t, relatedTypes[j].GetType()) && (relatedTypes[j].GetCondition() != "" ==> inDom(t.conditions, relatedTypes[j].GetCondition())) && (relatedTypes[j].GetRelation() != "" ==> relationDefined(t, relatedTypes[j].GetType(), relatedTypes[j].GetRelation()))
//@   ensures @everyRestrictionChecked err == nil ==> forall j int :: 0 <= j && j < len(relatedTypes) ==> typeDefined(t, relatedTypes[j].GetType()) && (relatedTypes[j].GetCondition() != "" ==> inDom(t.conditions, relatedTypes[j].GetCondition())) && (relatedTypes[j].GetRelation() != "" ==> relationDefined(t, relatedTypes[j].GetType(), relatedTypes[j].GetRelation()))

// ------------------------------------------------------------------ C18: every relation of a typesystem carries type info
// tuple validation consults the type restrictions and the condition of a relation only when HasTypeInfo reports true;
// New therefore stores every relation with a TypeInfo record (empty when the model gives no metadata for it), under
// its own name, with the model's rewrite — and the typesystem returned is built over exactly these maps
//@ func New(model) (t, err)
//@   property C18 C17
//@   option nosafety
//@   option stable model
//@   ensures @wired err == nil ==> t != nil && t.relations == relations && t.typeDefinitions == tds && t.ttuRelations == ttuRelations && t.conditions == uncompiledConditions
//@   monitor relationsBuilt
//@     before call builtin.mapupdate:openfgav1.Relation args m, k, v : assert m == tdRelations && v != nil && v.TypeInfo != nil && v.Name == k && k == relation && v.Rewrite == rewrite
//@     before call builtin.mapupdate:openfgav1.TypeDefinition args m, k, v : assert m == tds && v == td && k == td.GetType()

// ------------------------------------------------------------------ C19: no-panic sweep (thin, safety-only contracts)
// every index and slice expression of these functions is in range for ALL inputs, with no precondition (generated by
// bin/sweepgen, kept because every obligation discharges; callees without contract are treated as arbitrary)
//@ func (*TypeSystem).hasCycle(recv, a0, a1, a2, a3) (r0, r1)
//@   property C19
//@   option nosafety
//@   option safety slice,index

//@ func (*TypeSystem).relationInvolves(recv, a0, a1, a2, a3) (r0, r1)
//@   property C19
//@   option nosafety
//@   option safety slice,index

//@ func GetEdgesForExclusion(a0, a1) (r0, r1)
//@   property C19
//@   option nosafety
//@   option safety slice,index

//@ func NewAndValidate(a0, a1) (r0, r1)
//@   property C19
//@   option nosafety
//@   option safety slice,index

//@ func containsDuplicateType(a0) (r0)
//@   property C19
//@   option nosafety
//@   option safety slice,index

//@ func hasEntrypoints(a0, a1, a2, a3, a4) (r0, r1, r2)
//@   property C19
//@   option nosafety
//@   option safety slice,index
