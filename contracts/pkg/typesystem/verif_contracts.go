//go:build verif

// Contracts for package typesystem, checked by /verif/govc. Comment-only; compiled only under the build tag "verif".
package typesystem

//@ property C18

// ghost view of the model: the typesystem's maps
//@ spec typeDefined(t ref, ot string) bool = inDom(t.typeDefinitions, ot)
//@ spec relationOf(t ref, ot string, rel string) ref = t.relations[ot][rel]
//@ spec relationDefined(t ref, ot string, rel string) bool = typeDefined(t, ot) && inDom(t.relations[ot], rel)
//@ spec restrictionsOf(t ref, ot string, rel string) slice = relationOf(t, ot, rel).GetTypeInfo().GetDirectlyRelatedUserTypes()

//@ func (*TypeSystem).GetRelations(t, objectType) (rels, err)
//@   option nosafety
//@   modifies nothing
//@   ensures @defined typeDefined(t, objectType) ==> err == nil && rels == t.relations[objectType]
//@   ensures @undefined !typeDefined(t, objectType) ==> err != nil && rels == nil

//@ func (*TypeSystem).GetRelation(t, objectType, relation) (r, err)
//@   option nosafety
//@   modifies nothing
//@   ensures @defined relationDefined(t, objectType, relation) ==> err == nil && r == relationOf(t, objectType, relation)
//@   ensures @undefined !relationDefined(t, objectType, relation) ==> err != nil && r == nil

//@ func (*TypeSystem).GetDirectlyRelatedUserTypes(t, objectType, relation) (res, err)
//@   option nosafety
//@   modifies nothing
//@   ensures @defined relationDefined(t, objectType, relation) ==> err == nil && res == restrictionsOf(t, objectType, relation)
//@   ensures @undefined !relationDefined(t, objectType, relation) ==> err != nil && res == nil
