//go:build verif

// Contracts for package encrypter, checked by /verif/govc. Comment-only; compiled only under the build tag "verif".
package encrypter

//@ property C28 C19

//@ func (*GCMEncrypter).Encrypt(e, data) (out, err)
//@   requires e != nil && e.cipherMode != nil
//@   modifies nothing
//@   refines Encrypter.Encrypt
//@   ensures @empty len(data) == 0 ==> out == data && err == nil
//@   ensures @sealed err == nil ==> gcmRel(e.cipherMode, old(bytes(data)), bytes(out))
//@   ensures @keepsKey e.cipherMode == old(e.cipherMode)

//@ func (*GCMEncrypter).Decrypt(e, data) (out, err)
//@   requires e != nil && e.cipherMode != nil
//@   modifies nothing
//@   refines Encrypter.Decrypt
//@   ensures @empty len(data) == 0 ==> out == data && err == nil
//@   ensures @short 0 < len(data) && len(data) < aeadNonceSize(e.cipherMode) ==> err != nil && out == nil
//@   ensures @opened forall p string :: gcmRel(e.cipherMode, p, old(bytes(data))) ==> err == nil && bytes(out) == p
//@   ensures @failClosed err != nil ==> out == nil

//@ func (*NoopEncrypter).Encrypt(e, data) (out, err)
//@   pure
//@   refines Encrypter.Encrypt
//@   ensures out == data && err == nil

//@ func (*NoopEncrypter).Decrypt(e, data) (out, err)
//@   pure
//@   refines Encrypter.Decrypt
//@   ensures out == data && err == nil

//@ lemma gcm_roundtrip(e *GCMEncrypter, d []byte)
//@   requires e != nil && e.cipherMode != nil
//@   let c, err = (*GCMEncrypter).Encrypt(e, d)
//@   let p, err2 = (*GCMEncrypter).Decrypt(e, c)
//@   ensures err == nil ==> err2 == nil && bytes(p) == old(bytes(d))

// the AES key is the SHA-256 digest of the configured key string: two configured keys give the same cipher key only
// if their digests collide (tokens issued under another key are then rejected by AEAD authenticity)
//@ func create32ByteKey(s) (k)
//@   option nosafety
//@   modifies nothing
//@   ensures bytes(k) == sha256of(s) && len(k) == 32
