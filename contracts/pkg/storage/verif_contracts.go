//go:build verif

// Contracts for package storage (cache keys), checked by /verif/govc. Comment-only; build tag "verif".
package storage

// ------------------------------------------------------------------ C24 / C16: flat cache keys = exact field lists
// Each key is the concatenation of the canonical encodings of exactly these fields, in this order; the store id is a
// length-prefixed field of every key (C16). Pure for callers: the only pre-existing memory touched is the pooled builder.

//@ func CheckCacheKey(storeID, object, relation, user, invariant) (k)
//@   property C24 C16 C08
//@   option nosafety
//@   pure
//@   option frame_skip H:keys. MemB
//@   ensures @fields k.data == encString("SP") + encString(storeID) + encString(object) + encString(relation) + encString(user) + encUint64(invariant)

//@ func ChangelogCacheKey(storeID) (k)
//@   property C24 C16
//@   option nosafety
//@   pure
//@   option frame_skip H:keys. MemB
//@   ensures @fields k.data == encString("CC") + encString(storeID)

//@ func InvalidIteratorCacheKey(storeID) (k)
//@   property C24 C16 C11
//@   option nosafety
//@   pure
//@   option frame_skip H:keys. MemB
//@   ensures @fields k.data == encString("IQ") + encString(storeID)

//@ func InvalidIteratorByObjectRelationCacheKey(storeID, object, relation) (k)
//@   property C24 C16 C11
//@   option nosafety
//@   pure
//@   option frame_skip H:keys. MemB
//@   ensures @fields k.data == encString("IQ") + encString("OR") + encString(storeID) + encString(object) + encString(relation)

//@ func InvalidIteratorByUserObjectTypeCacheKey(storeID, user, objectType) (k)
//@   property C24 C16 C11
//@   option nosafety
//@   pure
//@   option frame_skip H:keys. MemB
//@   ensures @fields k.data == encString("IQ") + encString("UOT") + encString(storeID) + encString(user) + encString(objectType)

// equal CheckCacheKeys have equal store, object, relation, user and invariant: a chain of one-field cancellations, each an
// instance of the lemmas keys.cancel_string / keys.cancel_u64 (whose only assumptions are the two facts about encoding/binary)
//@ lemma checkcachekey_injective(s1 string, o1 string, r1 string, u1 string, i1 int, s2 string, o2 string, r2 string, u2 string, i2 int)
//@   property C24 C16
//@   let k1 = CheckCacheKey(s1, o1, r1, u1, i1)
//@   let k2 = CheckCacheKey(s2, o2, r2, u2, i2)
//@   let a4 = encUint64(i1) + ""
//@   let b4 = encUint64(i2) + ""
//@   let a3 = encString(u1) + a4
//@   let b3 = encString(u2) + b4
//@   let a2 = encString(r1) + a3
//@   let b2 = encString(r2) + b3
//@   let a1 = encString(o1) + a2
//@   let b1 = encString(o2) + b2
//@   let a0 = encString(s1) + a1
//@   let b0 = encString(s2) + b1
//@   use cancel_string("SP", "SP", a0, b0)
//@   use cancel_string(s1, s2, a1, b1)
//@   use cancel_string(o1, o2, a2, b2)
//@   use cancel_string(r1, r2, a3, b3)
//@   use cancel_string(u1, u2, a4, b4)
//@   use cancel_u64(i1, i2, "", "")
//@   ensures k1 == k2 ==> s1 == s2 && o1 == o2 && r1 == r2 && u1 == u2 && i1 == i2

// marker keys of different stores differ, for each of the three marker shapes
//@ lemma invalidation_keys_store_scoped(s1 string, s2 string, o1 string, r1 string, o2 string, r2 string, u1 string, t1 string, u2 string, t2 string)
//@   property C24 C16
//@   let a = InvalidIteratorCacheKey(s1)
//@   let b = InvalidIteratorCacheKey(s2)
//@   let c = InvalidIteratorByObjectRelationCacheKey(s1, o1, r1)
//@   let d = InvalidIteratorByObjectRelationCacheKey(s2, o2, r2)
//@   let e = InvalidIteratorByUserObjectTypeCacheKey(s1, u1, t1)
//@   let f = InvalidIteratorByUserObjectTypeCacheKey(s2, u2, t2)
//@   let c2 = encString(o1) + encString(r1)
//@   let d2 = encString(o2) + encString(r2)
//@   let e2 = encString(u1) + encString(t1)
//@   let f2 = encString(u2) + encString(t2)
//@   use cancel_string("IQ", "IQ", encString(s1), encString(s2))
//@   use cancel_string(s1, s2, "", "")
//@   use cancel_string("IQ", "IQ", encString("OR") + encString(s1) + c2, encString("OR") + encString(s2) + d2)
//@   use cancel_string("OR", "OR", encString(s1) + c2, encString(s2) + d2)
//@   use cancel_string(s1, s2, c2, d2)
//@   use cancel_string("IQ", "IQ", encString("UOT") + encString(s1) + e2, encString("UOT") + encString(s2) + f2)
//@   use cancel_string("UOT", "UOT", encString(s1) + e2, encString(s2) + f2)
//@   use cancel_string(s1, s2, e2, f2)
//@   ensures @store_wide a == b ==> s1 == s2
//@   ensures @object_relation c == d ==> s1 == s2
//@   ensures @user_objecttype e == f ==> s1 == s2

// a CheckCacheKey never collides with a changelog or marker key (different leading prefix field), and changelog keys are store-scoped
//@ lemma key_spaces_disjoint(s1 string, o1 string, r1 string, u1 string, i1 int, s2 string)
//@   property C24 C16
//@   let k = CheckCacheKey(s1, o1, r1, u1, i1)
//@   let m = InvalidIteratorCacheKey(s2)
//@   let cc = ChangelogCacheKey(s2)
//@   let cc1 = ChangelogCacheKey(s1)
//@   let rest = encString(s1) + encString(o1) + encString(r1) + encString(u1) + encUint64(i1)
//@   use cancel_string("SP", "IQ", rest, encString(s2))
//@   use cancel_string("SP", "CC", rest, encString(s2))
//@   use cancel_string("CC", "CC", encString(s1), encString(s2))
//@   use cancel_string(s1, s2, "", "")
//@   ensures @check_vs_marker k != m
//@   ensures @check_vs_changelog k != cc
//@   ensures @changelog_store cc1 == cc ==> s1 == s2

// ------------------------------------------------------------------ C24 / C16: iterator cache keys (flat fields + 64-bit digest of the filter lists)
// The per-query filters are canonicalised (one string per element, sorted) before they are hashed: the element strings are
// pinned here, at the point they are handed to the sort, because the sort itself is outside the verified text.

//@ spec refPart(r ref) string = typeIs(r.GetRelationOrWildcard(), "*openfgav1.RelationReference_Wildcard") ? r.GetType() + ":*" : (typeIs(r.GetRelationOrWildcard(), "*openfgav1.RelationReference_Relation") ? r.GetType() + "#" + as(r.GetRelationOrWildcard(), "*openfgav1.RelationReference_Relation").Relation : r.GetType())
//@ spec objRelPart(r ref) string = r.GetRelation() != "" ? r.GetObject() + "#" + r.GetRelation() : r.GetObject()

// every type restriction contributes one string that distinguishes type, type#relation and type:* (so [user] and [user:*] differ)
//@ func copyRelationReferences(a, refs) (w)
//@   property C24 C09
//@   option nosafety
//@   modifies elems(a)
//@   loop 0 invariant fresh(parts) && len(parts) == $idx + 1 && $idx < len(refs) && forall j int :: 0 <= j && j <= $idx ==> parts[j] == refPart(refs[j])
//@   loop 1 invariant w == $idx + 1 && w <= len(a) && len(parts) == len(refs) && $idx < len(parts)
//@   loop 1 invariant @written forall k int :: 0 <= k && k <= $idx ==> typeIs(a[k], "keys.String") && as(a[k], "keys.String") == parts[k]
//@   monitor canonicalParts
//@     before call slices.Sort args x : assert len(x) == len(refs) && forall j int :: 0 <= j && j < len(x) ==> x[j] == refPart(refs[j])
//@   ensures @count w == min(len(a), len(refs))

//@ func copyObjectRelations(a, rels) (w)
//@   property C24 C09
//@   option nosafety
//@   modifies elems(a)
//@   loop 0 invariant fresh(values) && len(values) == len(rels) && $idx < len(rels) && forall j int :: 0 <= j && j <= $idx ==> values[j] == objRelPart(rels[j])
//@   loop 1 invariant w == $idx + 1 && w <= len(a) && len(values) == len(rels) && $idx < len(values)
//@   loop 1 invariant @written forall k int :: 0 <= k && k <= $idx ==> typeIs(a[k], "keys.String") && as(a[k], "keys.String") == values[k]
//@   monitor canonicalParts
//@     before call slices.Sort args x : assert len(x) == len(rels) && forall j int :: 0 <= j && j < len(x) ==> x[j] == objRelPart(rels[j])
//@   ensures @count w == min(len(a), len(rels))

// every condition name, the empty "unconditioned" name included, is kept (Conditions=[""] differs from Conditions=nil)
//@ func copyConditions(a, conditions) (w)
//@   property C24 C09
//@   option nosafety
//@   modifies elems(a)
//@   loop 0 invariant w == $idx + 1 && w <= len(a) && len(sorted) == len(conditions) && $idx < len(sorted)
//@   loop 0 invariant @written forall k int :: 0 <= k && k <= $idx ==> typeIs(a[k], "keys.String") && as(a[k], "keys.String") == sorted[k]
//@   loop 0 invariant @from forall k int :: 0 <= k && k <= $idx ==> exists j int :: 0 <= j && j < len(conditions) && as(a[k], "keys.String") == conditions[j]
//@   monitor canonicalParts
//@     before call slices.Sort args x : assert len(x) == len(conditions) && forall j int :: 0 <= j && j < len(x) ==> x[j] == conditions[j]
//@   ensures @count w == min(len(a), len(conditions))
//@   ensures @elements forall k int :: 0 <= k && k < w ==> typeIs(a[k], "keys.String") && exists j int :: 0 <= j && j < len(conditions) && as(a[k], "keys.String") == conditions[j]
//@   ensures @complete len(a) >= len(conditions) ==> forall j int :: 0 <= j && j < len(conditions) ==> exists k int :: 0 <= k && k < w && as(a[k], "keys.String") == conditions[j]

// The three iterator-cache keys: flat (prefix, operation, store, the query's scalar fields) followed by the 64-bit digest of
// the builder content produced from the filter lists. The digest is taken of exactly the bytes the builder held after the
// filter arrays were encoded (ghost `hashed`), every filter list is copied completely (array length == list length) and
// the scalar fields, store first, are length-prefixed fields of the key itself.

//@ func ReadKey(store, filter) (k)
//@   property C24 C16 C09
//@   option nosafety
//@   pure
//@   option frame_skip H:keys. MemB Mem:
//@   monitor digestInput
//@     ghost suffix int = 0
//@     ghost hashedLen int = -1
//@     ghost built int = 0
//@     ghost copied int = -1
//@     after call storage.copyConditions args arr, cs returning n : copied = (len(arr) == len(filter.Conditions) && cs == filter.Conditions) ? n : -1
//@     before call (*keys.Builder).EncodeArray args _, arr : assert len(arr) == len(filter.Conditions) && copied == len(arr)
//@     after call (*keys.Builder).EncodeArray : built = built + 1
//@     before call (*keys.Digest).Write args _, bs : assert built == 1
//@     after call (*keys.Digest).Sum64 returning s : suffix = s
//@   ensures @fields k.data == encString("IC") + encString("READ") + encString(store) + encString(filter.Object) + encString(filter.Relation) + encString(filter.User) + encUint64(suffix)

//@ func ReadUsersetTuplesKey(store, filter) (k)
//@   property C24 C16 C09
//@   option nosafety
//@   pure
//@   option frame_skip H:keys. MemB Mem:
//@   monitor digestInput
//@     ghost suffix int = 0
//@     ghost built int = 0
//@     ghost copied int = -1
//@     after call storage.copyRelationReferences args arr, rs returning n : copied = (len(arr) == len(filter.AllowedUserTypeRestrictions) && rs == filter.AllowedUserTypeRestrictions) ? n : -1
//@     after call storage.copyConditions args arr, cs returning n : copied = (len(arr) == len(filter.Conditions) && cs == filter.Conditions) ? n : -1
//@     before call (*keys.Builder).EncodeArray args _, arr : assert copied == len(arr) && (built == 0 ==> len(arr) == len(filter.AllowedUserTypeRestrictions)) && (built == 1 ==> len(arr) == len(filter.Conditions))
//@     after call (*keys.Builder).EncodeArray : built = built + 1 ; copied = -1
//@     before call (*keys.Digest).Write args _, bs : assert built == 2
//@     after call (*keys.Digest).Sum64 returning s : suffix = s
//@   ensures @fields k.data == encString("IC") + encString("RUT") + encString(store) + encString(filter.Object) + encString(filter.Relation) + encUint64(suffix)

//@ func ReadStartingWithUserKey(store, filter) (k)
//@   property C24 C16 C09
//@   option nosafety
//@   pure
//@   option frame_skip H:keys. MemB Mem:
//@   monitor digestInput
//@     ghost suffix int = 0
//@     ghost built int = 0
//@     after call (*keys.Builder).EncodeArray : built = built + 1
//@     before call (*keys.Digest).Write args _, bs : assert built == 3
//@     after call (*keys.Digest).Sum64 returning s : suffix = s
//@   ensures @fields k.data == encString("IC") + encString("RSWU") + encString(store) + encString(filter.ObjectType) + encString(filter.Relation) + encUint64(suffix)

// an invalid write or delete is always reported as an error
//@ func InvalidWriteInputError(tk, operation) (err)
//@   property C12 C31 C16
//@   option nosafety
//@   modifies nothing
//@   ensures @nonNil (operation == openfgav1.TupleOperation_TUPLE_OPERATION_WRITE || operation == openfgav1.TupleOperation_TUPLE_OPERATION_DELETE) ==> err != nil

// ------------------------------------------------------------------ C23: sequential iterator adapters
// filtering adapter: a tuple is yielded only if it is the underlying iterator's current tuple and the filter accepted
// exactly that tuple; the underlying iterator's error (done included) is passed through with no tuple
//@ func (*filteredTupleKeyIterator).Next(f, ctx) (res, err)
//@   property C23
//@   option nosafety
//@   ensures @onlyAccepted err == nil ==> res == last && lastErr == nil && judged == last && verdict
//@   ensures @errorPassThrough err != nil ==> res == nil && err == lastErr
//@   monitor filter
//@     ghost last *openfgav1.TupleKey = nil
//@     ghost lastErr error = nil
//@     ghost judged *openfgav1.TupleKey = nil
//@     ghost verdict = false
//@     after call storage.TupleKeyIterator.Next | storage.Iterator.Next returning x, e : last = x ; lastErr = e ; verdict = false ; judged = nil
//@     after call field:filter args k returning b : judged = k ; verdict = b

//@ func (*filteredTupleKeyIterator).Head(f, ctx) (res, err)
//@   property C23
//@   option nosafety
//@   ensures @onlyAccepted err == nil ==> res == last && judged == last && verdict
//@   ensures @errorNoTuple err != nil ==> res == nil
//@   monitor filter
//@     ghost last *openfgav1.TupleKey = nil
//@     ghost judged *openfgav1.TupleKey = nil
//@     ghost verdict = false
//@     after call storage.TupleKeyIterator.Head | storage.Iterator.Head returning x, e : last = x ; verdict = false ; judged = nil
//@     after call field:filter args k returning b : judged = k ; verdict = b

// condition-filtering adapter: a tuple is yielded only if the filter accepted exactly that tuple without error; a
// filter error never yields the tuple
//@ func (*ConditionsFilteredTupleKeyIterator).Next(f, ctx) (res, err)
//@   property C23 C01
//@   option nosafety
//@   ensures @onlyValid err == nil ==> res == last && lastErr == nil && judged == last && verdict && verdictErr == nil
//@   ensures @errorNoTuple err != nil ==> res == nil
//@   monitor filter
//@     ghost last *openfgav1.TupleKey = nil
//@     ghost lastErr error = nil
//@     ghost judged *openfgav1.TupleKey = nil
//@     ghost verdict = false
//@     ghost verdictErr error = nil
//@     after call storage.TupleKeyIterator.Next | storage.Iterator.Next returning x, e : last = x ; lastErr = e ; verdict = false ; judged = nil
//@     after call field:filter args k returning b, e : judged = k ; verdict = b ; verdictErr = e

// tuple -> tuple key mapping adapter: the key of exactly the underlying iterator's tuple, errors passed through
//@ func (*tupleKeyIterator).Next(t, ctx) (res, err)
//@   property C23
//@   option nosafety
//@   ensures @keyOfNext err == nil ==> lastErr == nil && res == last.GetKey()
//@   ensures @errorPassThrough err != nil ==> res == nil && err == lastErr
//@   monitor inner
//@     ghost last *openfgav1.Tuple = nil
//@     ghost lastErr error = nil
//@     after call storage.TupleIterator.Next | storage.Iterator.Next returning x, e : last = x ; lastErr = e

// ordered merge: what is yielded is the next element of the source that head() selected, and it becomes lastYielded
// (the duplicate filter and the order check of the following head() compare against it)
//@ func (*OrderedCombinedIterator).Next(c, ctx) (res, err)
//@   property C23
//@   option nosafety
//@   option stable c
//@   option defer_neutral
//@   ensures @fromSelected err == nil ==> headed && headErr == nil && nexted && nextErr == nil && res == nextT && c.lastYielded == res && c.lastHead == nil
//@   ensures @errorNoTuple err != nil ==> res == nil
//@   monitor merge
//@     ghost headed = false
//@     ghost headIdx int = 0
//@     ghost headErr error = nil
//@     ghost nexted = false
//@     ghost nextT *openfgav1.Tuple = nil
//@     ghost nextErr error = nil
//@     after call (*storage.OrderedCombinedIterator).head returning i, e : headed = true ; headIdx = i ; headErr = e
//@     before call storage.TupleIterator.Next | storage.Iterator.Next args it, _ : assert headed && headErr == nil && it == c.pending[headIdx]
//@     after call storage.TupleIterator.Next | storage.Iterator.Next returning x, e : nexted = true ; nextT = x ; nextErr = e

// ------------------------------------------------------------------ C14: pagination options
// the page size is the requested one, or the default when none (or a non-positive one) is given; the token is kept
//@ func NewPaginationOptions(ps, contToken) (o)
//@   property C14
//@   option nosafety
//@   modifies nothing
//@   ensures @size o.PageSize == (ps > 0 ? ps : storage.DefaultPageSize)
//@   ensures @from o.From == contToken

// ------------------------------------------------------------------ C23: static iterator and concatenation (generic adapters, by instantiation)
// static iterator: Next yields the first remaining item and drops exactly it; Head yields it and drops nothing; an empty
// iterator reports ErrIteratorDone; a context that reported cancellation yields no item and changes nothing (the
// "yields" clauses are stated for runs in which ctx.Err() never returned an error: the code calls it twice and the
// verifier does not assume the two answers agree)
//@ func (*StaticIterator[*v1.Tuple]).Next(s, ctx) (res, err)
//@   property C23
//@   option nosafety
//@   option safety slice,index
//@   option defer_neutral
//@   requires s != nil && s.mu != nil
//@   monitor ctx
//@     ghost cancelled = false
//@     after call context.Context.Err returning e : cancelled = cancelled || e != nil
//@   ensures @yieldsFirst err == nil && !cancelled ==> old(len(s.items)) >= 1 && res == old(s.items[0]) && len(s.items) == old(len(s.items)) - 1 && (forall j int :: 0 <= j && j < len(s.items) ==> s.items[j] == old(s.items[j + 1]))
//@   ensures @doneWhenEmpty err == nil || res == nil
//@   ensures @untouchedOnError err != nil ==> len(s.items) == old(len(s.items)) && (forall j int :: 0 <= j && j < len(s.items) ==> s.items[j] == old(s.items[j]))

//@ func (*StaticIterator[*v1.Tuple]).Head(s, ctx) (res, err)
//@   property C23
//@   option nosafety
//@   option safety slice,index
//@   option defer_neutral
//@   requires s != nil && s.mu != nil
//@   monitor ctx
//@     ghost cancelled = false
//@     after call context.Context.Err returning e : cancelled = cancelled || e != nil
//@   ensures @yieldsFirst err == nil && !cancelled ==> old(len(s.items)) >= 1 && res == old(s.items[0])
//@   ensures @keepsAll len(s.items) == old(len(s.items)) && (forall j int :: 0 <= j && j < len(s.items) ==> s.items[j] == old(s.items[j]))
//@   ensures @doneWhenEmpty err == nil || res == nil

//@ func (*StaticIterator[*v1.TupleKey]).Next(s, ctx) (res, err)
//@   property C23
//@   option nosafety
//@   option safety slice,index
//@   option defer_neutral
//@   requires s != nil && s.mu != nil
//@   monitor ctx
//@     ghost cancelled = false
//@     after call context.Context.Err returning e : cancelled = cancelled || e != nil
//@   ensures @yieldsFirst err == nil && !cancelled ==> old(len(s.items)) >= 1 && res == old(s.items[0]) && len(s.items) == old(len(s.items)) - 1 && (forall j int :: 0 <= j && j < len(s.items) ==> s.items[j] == old(s.items[j + 1]))
//@   ensures @doneWhenEmpty err == nil || res == nil

//@ func (*StaticIterator[*v1.TupleKey]).Head(s, ctx) (res, err)
//@   property C23
//@   option nosafety
//@   option safety slice,index
//@   option defer_neutral
//@   requires s != nil && s.mu != nil
//@   monitor ctx
//@     ghost cancelled = false
//@     after call context.Context.Err returning e : cancelled = cancelled || e != nil
//@   ensures @yieldsFirst err == nil && !cancelled ==> old(len(s.items)) >= 1 && res == old(s.items[0])
//@   ensures @keepsAll len(s.items) == old(len(s.items)) && (forall j int :: 0 <= j && j < len(s.items) ==> s.items[j] == old(s.items[j]))

// concatenation: the element yielded is the one the FIRST pending source yielded; a source is dropped (and stopped) only
// after it reported ErrIteratorDone, and then the answer is that of the rest (the recursive call); any other error of
// the first source is passed through with nothing dropped
//@ func (*combinedIterator[*v1.Tuple]).Next(c, ctx) (res, err)
//@   property C23
//@   option needs_pkg pkg/storage/storagewrappers
//@   option nosafety
//@   option safety slice,index
//@   option stable c
//@   requires c != nil && c.mu != nil
//@   ensures @fromFirstOrRest (recursed ==> res == recRes && err == recErr) && (!recursed && err == nil ==> asked && innerErr == nil && res == innerVal)
//@   ensures @emptyIsDone old(len(c.pending)) == 0 ==> err != nil && !asked
//@   ensures @errorPassThrough !recursed && asked && innerErr != nil ==> err == innerErr && len(c.pending) == old(len(c.pending))
//@   monitor concat
//@     ghost asked = false
//@     ghost first iface = nil
//@     ghost innerVal *openfgav1.Tuple = nil
//@     ghost innerErr error = nil
//@     ghost recursed = false
//@     ghost recRes *openfgav1.Tuple = nil
//@     ghost recErr error = nil
//@     before call storage.Iterator.Next | storage.TupleIterator.Next args it : assert !asked && len(c.pending) >= 1 && it == c.pending[0]
//@     after call storage.Iterator.Next | storage.TupleIterator.Next args it returning x, e : asked = true ; first = it ; innerVal = x ; innerErr = e
//@     before call storage.Iterator.Stop | storage.TupleIterator.Stop args it : assert asked && it == first && errIs(innerErr, storage.ErrIteratorDone)
//@     before call (*storage.combinedIterator[*v1.Tuple]).Next | (*storage.combinedIterator*).Next args cc : assert cc == c && asked && errIs(innerErr, storage.ErrIteratorDone)
//@     after call (*storage.combinedIterator[*v1.Tuple]).Next | (*storage.combinedIterator*).Next returning x, e : recursed = true ; recRes = x ; recErr = e

//@ func (*combinedIterator[*v1.Tuple]).Head(c, ctx) (res, err)
//@   property C23
//@   option needs_pkg pkg/storage/storagewrappers
//@   option nosafety
//@   option safety slice,index
//@   option stable c
//@   requires c != nil && c.mu != nil
//@   ensures @fromFirstOrRest (recursed ==> res == recRes && err == recErr) && (!recursed && err == nil ==> asked && innerErr == nil && res == innerVal)
//@   ensures @emptyIsDone old(len(c.pending)) == 0 ==> err != nil && !asked
//@   monitor concat
//@     ghost asked = false
//@     ghost first iface = nil
//@     ghost innerVal *openfgav1.Tuple = nil
//@     ghost innerErr error = nil
//@     ghost recursed = false
//@     ghost recRes *openfgav1.Tuple = nil
//@     ghost recErr error = nil
//@     before call storage.Iterator.Head | storage.TupleIterator.Head args it : assert !asked && len(c.pending) >= 1 && it == c.pending[0]
//@     after call storage.Iterator.Head | storage.TupleIterator.Head args it returning x, e : asked = true ; first = it ; innerVal = x ; innerErr = e
//@     before call storage.Iterator.Stop | storage.TupleIterator.Stop args it : assert asked && it == first && errIs(innerErr, storage.ErrIteratorDone)
//@     before call (*storage.combinedIterator[*v1.Tuple]).Head | (*storage.combinedIterator*).Head args cc : assert cc == c && asked && errIs(innerErr, storage.ErrIteratorDone)
//@     after call (*storage.combinedIterator[*v1.Tuple]).Head | (*storage.combinedIterator*).Head returning x, e : recursed = true ; recRes = x ; recErr = e

// ordered merge, selection step: head() returns the index of a source whose current head has the SMALLEST sort key
// among all sources that still have a head (hk[j] is the key of source j's head as last read in this call, alive[j]
// whether source j still has one); it reports ErrIteratorDone only when no source has a head. Together with the Next
// contract above (the element yielded is the selected source's next) this is "ordered merges stay sorted".
// Assumed: the mapper is a function of the tuple (effects list, `function field:mapper`). Stated for runs in which
// every source returned a tuple whenever it reported no error (ghost wb): the code's "no minimum yet" test is
// headMin == nil.
//@ func (*OrderedCombinedIterator).head(c, ctx) (r, err)
//@   property C23
//@   option nosafety
//@   option stable c
//@   loop 0 invariant $idx < n && (wb ==> (minIdx == -1 <==> headMin == nil) && (minIdx != -1 ==> 0 <= minIdx && minIdx <= $idx && alive[minIdx] && hk[minIdx] == ufString("field:mapper", c.mapper, headMin)) && (forall j int :: 0 <= j && j <= $idx && alive[j] ==> minIdx != -1 && hk[minIdx] <= hk[j]))
//@   loop 1 invariant pendingIdx < n && (wb ==> (minIdx == -1 <==> headMin == nil) && (minIdx != -1 ==> 0 <= minIdx && minIdx < pendingIdx && alive[minIdx] && hk[minIdx] == ufString("field:mapper", c.mapper, headMin)) && (forall j int :: 0 <= j && j < pendingIdx && alive[j] ==> minIdx != -1 && hk[minIdx] <= hk[j]) && alive[pendingIdx] && head != nil && hk[pendingIdx] == ufString("field:mapper", c.mapper, head))
//@   ensures @smallestHead err == nil && wb ==> 0 <= r && r < n && alive[r] && (forall j int :: 0 <= j && j < n && alive[j] ==> hk[r] <= hk[j])
//@   ensures @doneOnlyWhenNoHead r == -1 && err == storage.ErrIteratorDone && wb ==> (forall j int :: 0 <= j && j < n ==> !alive[j])
//@   monitor heads
//@     ghost hk intmap_string = hk
//@     ghost alive intmap_bool = alive
//@     ghost n int = 0
//@     ghost wb = true
//@     after call (*storage.OrderedCombinedIterator).clearPendingThatAreNil : n = len(c.pending)
//@     after call storage.TupleIterator.Head | storage.Iterator.Head returning h, e : alive = upd(alive, pendingIdx, e == nil) ; hk = upd(hk, pendingIdx, ufString("field:mapper", c.mapper, h)) ; wb = wb && (e != nil || h != nil)
//@     after call storage.TupleIterator.Next | storage.Iterator.Next returning x, e : alive = upd(alive, pendingIdx, e == nil && alive[pendingIdx])

// ------------------------------------------------------------------ C20 / C23: Stop reaches the wrapped iterator
// the adapters are built over exactly the iterator given; Stop hands a closure to the adapter's own sync.Once and that
// closure stops exactly the wrapped iterator (so stopping the outermost adapter of a chain releases the datastore
// iterator at its bottom); the ordered merge and the concatenation stop every pending source
//@ func NewTupleKeyIteratorFromTupleIterator(iter) (r)
//@   property C20 C23
//@   option nosafety
//@   ensures @wraps typeIs(r, "*storage.tupleKeyIterator") && as(r, "*storage.tupleKeyIterator") != nil && as(r, "*storage.tupleKeyIterator").iter == iter && as(r, "*storage.tupleKeyIterator").once != nil

//@ func NewFilteredTupleKeyIterator(iter, filter) (r)
//@   property C20 C23
//@   option nosafety
//@   ensures @wraps typeIs(r, "*storage.filteredTupleKeyIterator") && as(r, "*storage.filteredTupleKeyIterator") != nil && as(r, "*storage.filteredTupleKeyIterator").iter == iter && as(r, "*storage.filteredTupleKeyIterator").filter == filter && as(r, "*storage.filteredTupleKeyIterator").once != nil

//@ func NewConditionsFilteredTupleKeyIterator(iter, filter) (r)
//@   property C20 C23
//@   option nosafety
//@   ensures @wraps typeIs(r, "*storage.ConditionsFilteredTupleKeyIterator") && as(r, "*storage.ConditionsFilteredTupleKeyIterator") != nil && as(r, "*storage.ConditionsFilteredTupleKeyIterator").iter == iter && as(r, "*storage.ConditionsFilteredTupleKeyIterator").filter == filter && as(r, "*storage.ConditionsFilteredTupleKeyIterator").once != nil

//@ func (*tupleKeyIterator).Stop(t)
//@   property C20 C23
//@   option nosafety
//@   ensures @once handed
//@   monitor once
//@     ghost handed = false
//@     after call (*sync.Once).Do args o, f : handed = pre(o == t.once) && closureOf(f, "Stop$1") && closureBinds(f, 0, addrOf(t))

//@ func (*tupleKeyIterator).Stop$1()
//@   property C20 C23
//@   option nosafety
//@   ensures @stopsInner stopped
//@   monitor inner
//@     ghost stopped = false
//@     before call storage.Iterator.Stop | storage.TupleIterator.Stop args it : assert it == deref(t).iter
//@     after call storage.Iterator.Stop | storage.TupleIterator.Stop : stopped = true

//@ func (*filteredTupleKeyIterator).Stop(f)
//@   property C20 C23
//@   option nosafety
//@   ensures @once handed
//@   monitor once
//@     ghost handed = false
//@     after call (*sync.Once).Do args o, fn : handed = pre(o == f.once) && closureOf(fn, "Stop$1") && closureBinds(fn, 0, addrOf(f))

//@ func (*filteredTupleKeyIterator).Stop$1()
//@   property C20 C23
//@   option nosafety
//@   ensures @stopsInner stopped
//@   monitor inner
//@     ghost stopped = false
//@     before call storage.Iterator.Stop | storage.TupleKeyIterator.Stop args it : assert it == deref(f).iter
//@     after call storage.Iterator.Stop | storage.TupleKeyIterator.Stop : stopped = true

//@ func (*ConditionsFilteredTupleKeyIterator).Stop(f)
//@   property C20 C23
//@   option nosafety
//@   ensures @once handed
//@   monitor once
//@     ghost handed = false
//@     after call (*sync.Once).Do args o, fn : handed = pre(o == f.once) && closureOf(fn, "Stop$1") && closureBinds(fn, 0, addrOf(f))

//@ func (*ConditionsFilteredTupleKeyIterator).Stop$1()
//@   property C20 C23
//@   option nosafety
//@   ensures @stopsInner stopped
//@   monitor inner
//@     ghost stopped = false
//@     before call storage.Iterator.Stop | storage.TupleKeyIterator.Stop args it : assert it == deref(f).iter
//@     after call storage.Iterator.Stop | storage.TupleKeyIterator.Stop : stopped = true

// ------------------------------------------------------------------ C19: no-panic sweep (thin, safety-only contracts)
// every index and slice expression of these functions is in range for ALL inputs, with no precondition (generated by
// bin/sweepgen, kept because every obligation discharges; callees without contract are treated as arbitrary)
//@ func InvariantCacheKey(a0, a1, a2, a3) (r0)
//@   property C19
//@   option nosafety
//@   option safety slice,index
