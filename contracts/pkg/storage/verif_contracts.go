//go:build verif

// Contracts for package storage (cache keys), checked by /verif/govc. Comment-only; build tag "verif".
package storage

// ------------------------------------------------------------------ C24 / C16: flat cache keys = exact field lists
// Each key is the concatenation of the canonical encodings of exactly these fields, in this order; the store id is a
// length-prefixed field of every key (C16). Pure for callers: the only pre-existing memory touched is the pooled builder.

//@ func CheckCacheKey(storeID, object, relation, user, invariant) (k)
//@   property C24 C16 C08
//@   option nosafety
//@   pure
//@   option frame_skip H:keys. MemB
//@   ensures @fields k.data == encString("SP") + encString(storeID) + encString(object) + encString(relation) + encString(user) + encUint64(invariant)

//@ func ChangelogCacheKey(storeID) (k)
//@   property C24 C16
//@   option nosafety
//@   pure
//@   option frame_skip H:keys. MemB
//@   ensures @fields k.data == encString("CC") + encString(storeID)

//@ func InvalidIteratorCacheKey(storeID) (k)
//@   property C24 C16 C11
//@   option nosafety
//@   pure
//@   option frame_skip H:keys. MemB
//@   ensures @fields k.data == encString("IQ") + encString(storeID)

//@ func InvalidIteratorByObjectRelationCacheKey(storeID, object, relation) (k)
//@   property C24 C16 C11
//@   option nosafety
//@   pure
//@   option frame_skip H:keys. MemB
//@   ensures @fields k.data == encString("IQ") + encString("OR") + encString(storeID) + encString(object) + encString(relation)

//@ func InvalidIteratorByUserObjectTypeCacheKey(storeID, user, objectType) (k)
//@   property C24 C16 C11
//@   option nosafety
//@   pure
//@   option frame_skip H:keys. MemB
//@   ensures @fields k.data == encString("IQ") + encString("UOT") + encString(storeID) + encString(user) + encString(objectType)

// equal CheckCacheKeys have equal store, object, relation, user and invariant: a chain of one-field cancellations, each an
// instance of the lemmas keys.cancel_string / keys.cancel_u64 (whose only assumptions are the two facts about encoding/binary)
//@ lemma checkcachekey_injective(s1 string, o1 string, r1 string, u1 string, i1 int, s2 string, o2 string, r2 string, u2 string, i2 int)
//@   property C24 C16
//@   let k1 = CheckCacheKey(s1, o1, r1, u1, i1)
//@   let k2 = CheckCacheKey(s2, o2, r2, u2, i2)
//@   let a4 = encUint64(i1) + ""
//@   let b4 = encUint64(i2) + ""
//@   let a3 = encString(u1) + a4
//@   let b3 = encString(u2) + b4
//@   let a2 = encString(r1) + a3
//@   let b2 = encString(r2) + b3
//@   let a1 = encString(o1) + a2
//@   let b1 = encString(o2) + b2
//@   let a0 = encString(s1) + a1
//@   let b0 = encString(s2) + b1
//@   use cancel_string("SP", "SP", a0, b0)
//@   use cancel_string(s1, s2, a1, b1)
//@   use cancel_string(o1, o2, a2, b2)
//@   use cancel_string(r1, r2, a3, b3)
//@   use cancel_string(u1, u2, a4, b4)
//@   use cancel_u64(i1, i2, "", "")
//@   ensures k1 == k2 ==> s1 == s2 && o1 == o2 && r1 == r2 && u1 == u2 && i1 == i2

// marker keys of different stores differ, for each of the three marker shapes
//@ lemma invalidation_keys_store_scoped(s1 string, s2 string, o1 string, r1 string, o2 string, r2 string, u1 string, t1 string, u2 string, t2 string)
//@   property C24 C16
//@   let a = InvalidIteratorCacheKey(s1)
//@   let b = InvalidIteratorCacheKey(s2)
//@   let c = InvalidIteratorByObjectRelationCacheKey(s1, o1, r1)
//@   let d = InvalidIteratorByObjectRelationCacheKey(s2, o2, r2)
//@   let e = InvalidIteratorByUserObjectTypeCacheKey(s1, u1, t1)
//@   let f = InvalidIteratorByUserObjectTypeCacheKey(s2, u2, t2)
//@   let c2 = encString(o1) + encString(r1)
//@   let d2 = encString(o2) + encString(r2)
//@   let e2 = encString(u1) + encString(t1)
//@   let f2 = encString(u2) + encString(t2)
//@   use cancel_string("IQ", "IQ", encString(s1), encString(s2))
//@   use cancel_string(s1, s2, "", "")
//@   use cancel_string("IQ", "IQ", encString("OR") + encString(s1) + c2, encString("OR") + encString(s2) + d2)
//@   use cancel_string("OR", "OR", encString(s1) + c2, encString(s2) + d2)
//@   use cancel_string(s1, s2, c2, d2)
//@   use cancel_string("IQ", "IQ", encString("UOT") + encString(s1) + e2, encString("UOT") + encString(s2) + f2)
//@   use cancel_string("UOT", "UOT", encString(s1) + e2, encString(s2) + f2)
//@   use cancel_string(s1, s2, e2, f2)
//@   ensures @store_wide a == b ==> s1 == s2
//@   ensures @object_relation c == d ==> s1 == s2
//@   ensures @user_objecttype e == f ==> s1 == s2

// a CheckCacheKey never collides with a changelog or marker key (different leading prefix field), and changelog keys are store-scoped
//@ lemma key_spaces_disjoint(s1 string, o1 string, r1 string, u1 string, i1 int, s2 string)
//@   property C24 C16
//@   let k = CheckCacheKey(s1, o1, r1, u1, i1)
//@   let m = InvalidIteratorCacheKey(s2)
//@   let cc = ChangelogCacheKey(s2)
//@   let cc1 = ChangelogCacheKey(s1)
//@   let rest = encString(s1) + encString(o1) + encString(r1) + encString(u1) + encUint64(i1)
//@   use cancel_string("SP", "IQ", rest, encString(s2))
//@   use cancel_string("SP", "CC", rest, encString(s2))
//@   use cancel_string("CC", "CC", encString(s1), encString(s2))
//@   use cancel_string(s1, s2, "", "")
//@   ensures @check_vs_marker k != m
//@   ensures @check_vs_changelog k != cc
//@   ensures @changelog_store cc1 == cc ==> s1 == s2
