//go:build verif

// Contracts for package keys (cache-key encoding), checked by /verif/govc. Comment-only; build tag "verif".
package keys

//@ property C24

// the canonical encodings: tag byte, then a length-prefixed or fixed-width payload
//@ spec encString(s string) string = chr(4) + uvarint(len(s)) + s
//@ spec encBytes(s string) string = chr(5) + uvarint(len(s)) + s
//@ spec encUint64(x int) string = chr(3) + le64(x)
//@ spec encBool(b bool) string = chr(2) + (b ? chr(1) : chr(0))
//@ spec encArrayHeader(n int) string = chr(6) + uvarint(n)
//@ spec encMapHeader(n int) string = chr(7) + uvarint(n)

//@ func (*Builder).EncodeString(kb, s)
//@   option nosafety
//@   modifies H:keys.Builder.data MemB
//@   ensures bytes(kb.data) == old(bytes(kb.data)) + encString(s)

// exact when the caller's bytes do not live in the builder's own spare capacity (append would overwrite them before copying)
//@ func (*Builder).EncodeBytes(kb, b)
//@   option nosafety
//@   modifies H:keys.Builder.data MemB
//@   ensures @exact base(b) != old(base(kb.data)) ==> bytes(kb.data) == old(bytes(kb.data)) + encBytes(old(bytes(b)))
//@   ensures @appendOnly hasPrefix(bytes(kb.data), old(bytes(kb.data)) + chr(5) + uvarint(len(b)))

//@ func (*Builder).EncodeUint64(kb, i)
//@   option nosafety
//@   modifies H:keys.Builder.data MemB
//@   ensures bytes(kb.data) == old(bytes(kb.data)) + encUint64(i)

//@ func (*Builder).EncodeBool(kb, b)
//@   option nosafety
//@   modifies H:keys.Builder.data MemB
//@   ensures bytes(kb.data) == old(bytes(kb.data)) + encBool(b)

//@ func (*Builder).EncodeNull(kb)
//@   option nosafety
//@   modifies H:keys.Builder.data MemB
//@   ensures bytes(kb.data) == old(bytes(kb.data)) + chr(0)

//@ func (*Builder).EncodeUnset(kb)
//@   option nosafety
//@   modifies H:keys.Builder.data MemB
//@   ensures bytes(kb.data) == old(bytes(kb.data)) + chr(11)

//@ func (*Builder).EncodeByte(kb, b)
//@   option nosafety
//@   modifies H:keys.Builder.data MemB
//@   ensures bytes(kb.data) == old(bytes(kb.data)) + chr(1) + chr(b)

//@ func (*Builder).EncodeArrayHeader(kb, n)
//@   option nosafety
//@   requires n >= 0
//@   modifies H:keys.Builder.data MemB
//@   ensures bytes(kb.data) == old(bytes(kb.data)) + encArrayHeader(n)

//@ func (*Builder).EncodeMapHeader(kb, n)
//@   option nosafety
//@   requires n >= 0
//@   modifies H:keys.Builder.data MemB
//@   ensures bytes(kb.data) == old(bytes(kb.data)) + encMapHeader(n)

//@ func (*Builder).Reset(kb)
//@   option nosafety
//@   modifies H:keys.Builder.data
//@   ensures len(kb.data) == 0

//@ func (*Builder).Key(kb) (k)
//@   option nosafety
//@   modifies nothing
//@   ensures k.data == bytes(kb.data)

// ------------------------------------------------------------------ Serializable values only ever append to the builder
//@ iface Serializable.WriteTo(kb)
//@   modifies H:keys.Builder.data MemB
//@   ensures hasPrefix(bytes(kb.data), old(bytes(kb.data)))

//@ func (String).WriteTo(s, kb)
//@   option nosafety
//@   refines Serializable.WriteTo
//@   modifies H:keys.Builder.data MemB
//@   ensures bytes(kb.data) == old(bytes(kb.data)) + encString(s)

//@ func (Bytes).WriteTo(b, kb)
//@   option nosafety
//@   refines Serializable.WriteTo
//@   modifies H:keys.Builder.data MemB
//@   ensures hasPrefix(bytes(kb.data), old(bytes(kb.data)) + chr(5) + uvarint(len(b)))

//@ func (Byte).WriteTo(b, kb)
//@   option nosafety
//@   refines Serializable.WriteTo
//@   modifies H:keys.Builder.data MemB
//@   ensures bytes(kb.data) == old(bytes(kb.data)) + chr(1) + chr(b)

//@ func (Bool).WriteTo(b, kb)
//@   option nosafety
//@   refines Serializable.WriteTo
//@   modifies H:keys.Builder.data MemB
//@   ensures bytes(kb.data) == old(bytes(kb.data)) + encBool(b)

//@ func (Null).WriteTo(n, kb)
//@   option nosafety
//@   refines Serializable.WriteTo
//@   modifies H:keys.Builder.data MemB
//@   ensures bytes(kb.data) == old(bytes(kb.data)) + chr(0)

//@ func (Unset).WriteTo(n, kb)
//@   option nosafety
//@   refines Serializable.WriteTo
//@   modifies H:keys.Builder.data MemB
//@   ensures bytes(kb.data) == old(bytes(kb.data)) + chr(11)

//@ func (Uint64).WriteTo(i, kb)
//@   option nosafety
//@   refines Serializable.WriteTo
//@   modifies H:keys.Builder.data MemB
//@   ensures bytes(kb.data) == old(bytes(kb.data)) + encUint64(i)

//@ func (Array).WriteTo(a, kb)
//@   option nosafety
//@   refines Serializable.WriteTo
//@   modifies H:keys.Builder.data MemB
//@   ensures hasPrefix(bytes(kb.data), old(bytes(kb.data)) + encArrayHeader(len(a)))

// an array is its header (tag + element count) followed by whatever its elements append
//@ func (*Builder).EncodeArray(kb, a)
//@   option nosafety
//@   modifies H:keys.Builder.data MemB
//@   loop 0 invariant hasPrefix(bytes(kb.data), old(bytes(kb.data)) + encArrayHeader(len(a)))
//@   ensures hasPrefix(bytes(kb.data), old(bytes(kb.data)) + encArrayHeader(len(a)))

//@ func (*Builder).Bytes(kb) (out)
//@   option nosafety
//@   pure
//@   ensures out == kb.data

// a pooled builder starts empty: every builder put back into the pool was Reset
//@ func (*PooledBuilder).Close(b)
//@   option nosafety
//@   modifies H:keys.PooledBuilder.Builder H:keys.PooledBuilder.closed H:keys.Builder.data
//@   monitor poolInvariant
//@     before call (*sync.Pool).Put args _, x : assert len(as(x, "*Builder").data) == 0

// pool invariant (established by Close, above, and by the pool's New function): a builder taken from the pool is empty
//@ func GetBuilder() (b)
//@   trusted
//@   pure
//@   ensures b != nil && b.Builder != nil && len(b.Builder.data) == 0 && !b.closed

// ------------------------------------------------------------------ injectivity of the flat encodings
// assumed about encoding/binary: uvarint is a prefix code (binary.Uvarint decodes it back), le64 has width 8 and is injective
//@ lemma uvarint_prefix_code(x int, y int, r string, t string)
//@   requires x >= 0 && y >= 0
//@   assume uvarint(x) + r == uvarint(y) + t ==> x == y && r == t
//@   ensures uvarint(x) + r == uvarint(y) + t ==> x == y && r == t

// one-field cancellation: equal encodings of (string field ++ rest) have equal fields and equal rests
//@ lemma cancel_string(a string, c string, x string, y string)
//@   assume uvarint(len(a)) + (a + x) == uvarint(len(c)) + (c + y) ==> len(a) == len(c) && a + x == c + y
//@   ensures encString(a) + x == encString(c) + y ==> a == c && x == y

//@ lemma cancel_u64(a int, c int, x string, y string)
//@   assume len(le64(a)) == 8 && len(le64(c)) == 8 && (le64(a) == le64(c) ==> a == c)
//@   ensures encUint64(a) + x == encUint64(c) + y ==> a == c && x == y

// ------------------------------------------------------------------ structured values (request / condition contexts)
// the streaming walk frames every value: a struct field is pushed WITH its key (whatever the key is, the empty string
// included), a list element without one; a popped frame that has a key gets exactly that key written before anything
// of its value, a frame without key gets no key — so "field k holds v" and "list holds k, v" never serialise alike
//@ func (*PbValue).WriteTo(pbvalue, kb)
//@   property C24
//@   option nosafety
//@   monitor framing
//@     ghost keyed = false
//@     ghost keyOf string = ""
//@     ghost inStruct = false
//@     before call builtin.append:keys.frame args sl, add : assert len(add) == 1 && (add[0].hasKey <==> inStruct)
//@     after call builtin.len : keyed = false
//@     after call (*keys.Builder).EncodeString args _, s : keyed = true ; keyOf = s
//@     before call (*structpb.Value).GetKind args _ : assert (current.hasKey ==> keyed && keyOf == current.key) && (!current.hasKey ==> !keyed)
//@     after call (*keys.Builder).EncodeMapHeader : inStruct = true
//@     after call (*keys.Builder).EncodeArrayHeader : inStruct = false
