//go:build verif

// Contracts for package storagewrappers, checked by /verif/govc. Comment-only; compiled only under the build tag "verif".
package storagewrappers

//@ func (*CachedDatastore).Read(c, ctx, store, filter, options) (res, err)
//@   property C10
//@   option nosafety
//@   requires c != nil && c.RelationshipTupleReader != nil
//@   ensures @higherBypass options.Consistency.Preference == openfgav1.ConsistencyPreference_HIGHER_CONSISTENCY ==> innerCalled && res == innerIt && err == innerErr && innerStore == store && innerFilter == filter && innerOpts == options
//@   monitor noCacheOnHigher
//@     ghost innerCalled = false
//@     ghost innerIt iface = nil
//@     ghost innerErr error = nil
//@     ghost innerStore string = ""
//@     ghost innerFilter S_storage.ReadFilter = filter
//@     ghost innerOpts S_storage.ReadOptions = options
//@     after call storage.RelationshipTupleReader.Read args _, _, a_store, a_filter, a_opts returning it, e : innerCalled = true ; innerIt = it ; innerErr = e ; innerStore = a_store ; innerFilter = a_filter ; innerOpts = a_opts
//@     before call (*storagewrappers.CachedDatastore).newCachedIterator* | storagewrappers.findInCache | storagewrappers.isInvalidAt | storage.InMemoryCache.* | storage.Read*Key : assert options.Consistency.Preference != openfgav1.ConsistencyPreference_HIGHER_CONSISTENCY

//@ func (*CachedDatastore).ReadUsersetTuples(c, ctx, store, filter, options) (res, err)
//@   property C10
//@   option nosafety
//@   requires c != nil && c.RelationshipTupleReader != nil
//@   ensures @higherBypass options.Consistency.Preference == openfgav1.ConsistencyPreference_HIGHER_CONSISTENCY ==> innerCalled && res == innerIt && err == innerErr && innerStore == store && innerFilter == filter && innerOpts == options
//@   monitor noCacheOnHigher
//@     ghost innerCalled = false
//@     ghost innerIt iface = nil
//@     ghost innerErr error = nil
//@     ghost innerStore string = ""
//@     ghost innerFilter S_storage.ReadUsersetTuplesFilter = filter
//@     ghost innerOpts S_storage.ReadUsersetTuplesOptions = options
//@     after call storage.RelationshipTupleReader.ReadUsersetTuples args _, _, a_store, a_filter, a_opts returning it, e : innerCalled = true ; innerIt = it ; innerErr = e ; innerStore = a_store ; innerFilter = a_filter ; innerOpts = a_opts
//@     before call (*storagewrappers.CachedDatastore).newCachedIterator* | storagewrappers.findInCache | storagewrappers.isInvalidAt | storage.InMemoryCache.* | storage.Read*Key : assert options.Consistency.Preference != openfgav1.ConsistencyPreference_HIGHER_CONSISTENCY

//@ func (*CachedDatastore).ReadStartingWithUser(c, ctx, store, filter, options) (res, err)
//@   property C10
//@   option nosafety
//@   requires c != nil && c.RelationshipTupleReader != nil
//@   ensures @higherBypass options.Consistency.Preference == openfgav1.ConsistencyPreference_HIGHER_CONSISTENCY ==> innerCalled && res == innerIt && err == innerErr && innerStore == store && innerFilter == filter && innerOpts == options
//@   monitor noCacheOnHigher
//@     ghost innerCalled = false
//@     ghost innerIt iface = nil
//@     ghost innerErr error = nil
//@     ghost innerStore string = ""
//@     ghost innerFilter S_storage.ReadStartingWithUserFilter = filter
//@     ghost innerOpts S_storage.ReadStartingWithUserOptions = options
//@     after call storage.RelationshipTupleReader.ReadStartingWithUser args _, _, a_store, a_filter, a_opts returning it, e : innerCalled = true ; innerIt = it ; innerErr = e ; innerStore = a_store ; innerFilter = a_filter ; innerOpts = a_opts
//@     before call (*storagewrappers.CachedDatastore).newCachedIterator* | storagewrappers.findInCache | storagewrappers.isInvalidAt | storage.InMemoryCache.* | storage.Read*Key : assert options.Consistency.Preference != openfgav1.ConsistencyPreference_HIGHER_CONSISTENCY

//@ func (*CachedTupleReader).Read(c, ctx, storeID, filter, opts) (res, err)
//@   property C10
//@   option nosafety
//@   requires c != nil && c.delegate != nil
//@   ensures @higherBypass opts.Consistency.Preference == openfgav1.ConsistencyPreference_HIGHER_CONSISTENCY ==> innerCalled && res == innerIt && err == innerErr && innerStore == storeID && innerFilter == filter && innerOpts == opts
//@   monitor noCacheOnHigher
//@     ghost innerCalled = false
//@     ghost innerIt iface = nil
//@     ghost innerErr error = nil
//@     ghost innerStore string = ""
//@     ghost innerFilter S_storage.ReadFilter = filter
//@     ghost innerOpts S_storage.ReadOptions = opts
//@     after call storage.RelationshipTupleReader.Read args _, _, a_store, a_filter, a_opts returning it, e : innerCalled = true ; innerIt = it ; innerErr = e ; innerStore = a_store ; innerFilter = a_filter ; innerOpts = a_opts
//@     before call (*storagewrappers.CachedTupleReader).tryGetFromCache | storagewrappers.newCachingIterator | storage.InMemoryCache.* | storage.Read*Key : assert opts.Consistency.Preference != openfgav1.ConsistencyPreference_HIGHER_CONSISTENCY

//@ func (*CachedTupleReader).ReadUsersetTuples(c, ctx, storeID, filter, opts) (res, err)
//@   property C10
//@   option nosafety
//@   requires c != nil && c.delegate != nil
//@   ensures @higherBypass opts.Consistency.Preference == openfgav1.ConsistencyPreference_HIGHER_CONSISTENCY ==> innerCalled && res == innerIt && err == innerErr && innerStore == storeID && innerFilter == filter && innerOpts == opts
//@   monitor noCacheOnHigher
//@     ghost innerCalled = false
//@     ghost innerIt iface = nil
//@     ghost innerErr error = nil
//@     ghost innerStore string = ""
//@     ghost innerFilter S_storage.ReadUsersetTuplesFilter = filter
//@     ghost innerOpts S_storage.ReadUsersetTuplesOptions = opts
//@     after call storage.RelationshipTupleReader.ReadUsersetTuples args _, _, a_store, a_filter, a_opts returning it, e : innerCalled = true ; innerIt = it ; innerErr = e ; innerStore = a_store ; innerFilter = a_filter ; innerOpts = a_opts
//@     before call (*storagewrappers.CachedTupleReader).tryGetFromCache | storagewrappers.newCachingIterator | storage.InMemoryCache.* | storage.Read*Key : assert opts.Consistency.Preference != openfgav1.ConsistencyPreference_HIGHER_CONSISTENCY

//@ func (*CachedTupleReader).ReadStartingWithUser(c, ctx, storeID, filter, opts) (res, err)
//@   property C10
//@   option nosafety
//@   requires c != nil && c.delegate != nil
//@   ensures @higherBypass opts.Consistency.Preference == openfgav1.ConsistencyPreference_HIGHER_CONSISTENCY ==> innerCalled && res == innerIt && err == innerErr && innerStore == storeID && innerFilter == filter && innerOpts == opts
//@   monitor noCacheOnHigher
//@     ghost innerCalled = false
//@     ghost innerIt iface = nil
//@     ghost innerErr error = nil
//@     ghost innerStore string = ""
//@     ghost innerFilter S_storage.ReadStartingWithUserFilter = filter
//@     ghost innerOpts S_storage.ReadStartingWithUserOptions = opts
//@     after call storage.RelationshipTupleReader.ReadStartingWithUser args _, _, a_store, a_filter, a_opts returning it, e : innerCalled = true ; innerIt = it ; innerErr = e ; innerStore = a_store ; innerFilter = a_filter ; innerOpts = a_opts
//@     before call (*storagewrappers.CachedTupleReader).tryGetFromCache | storagewrappers.newCachingIterator | storage.InMemoryCache.* | storage.Read*Key : assert opts.Consistency.Preference != openfgav1.ConsistencyPreference_HIGHER_CONSISTENCY


// ------------------------------------------------------------------ C11: validity tests of the iterator caches

// an invalidation marker stored under k that is newer than time t
//@ spec markerNewer(cache iface, k S_keys.Key, t S_time.Time) bool = typeIs(gmap("cache", cache, k), "*storage.InvalidEntityCacheEntry") && ts(t) < ts(as(gmap("cache", cache, k), "*storage.InvalidEntityCacheEntry").LastModified)

//@ func isInvalidAt(cache, ts, invalidStore, invalidEntityKeys) (b)
//@   property C11
//@   option nosafety
//@   modifies nothing
//@   loop 0 invariant forall j :: 0 <= j && j <= $idx ==> !markerNewer(cache, invalidEntityKeys[j], ts)
//@   ensures @anyMarker b ==> (markerNewer(cache, invalidStore, ts) || exists i :: 0 <= i && i < len(invalidEntityKeys) && markerNewer(cache, invalidEntityKeys[i], ts))
//@   ensures @noMarker !b ==> !markerNewer(cache, invalidStore, ts) && (forall i :: 0 <= i && i < len(invalidEntityKeys) ==> !markerNewer(cache, invalidEntityKeys[i], ts))

// "no entry populated before an invalidation marker is served": an entry is returned only if it is the iterator entry
// stored under key and no store-wide or entity marker is newer than it; a stale entry is deleted, nothing else is touched
//@ func findInCache(cache, key, storeKey, invalidEntityKeys) (e, ok)
//@   property C11
//@   option nosafety
//@   modifies GM:cache
//@   ensures @served ok ==> e != nil && typeIs(old(gmap("cache", cache, key)), "*storage.TupleIteratorCacheEntry") && e == as(old(gmap("cache", cache, key)), "*storage.TupleIteratorCacheEntry") && !old(markerNewer(cache, storeKey, e.LastModified)) && (forall i :: 0 <= i && i < len(invalidEntityKeys) ==> !old(markerNewer(cache, invalidEntityKeys[i], e.LastModified)))
//@   ensures @notServed !ok ==> e == nil

// second iterator cache (CachedTupleReader): same statement with strict "marker after entry"
//@ spec markerAfter(cache iface, k S_keys.Key, t S_time.Time) bool = typeIs(gmap("cache", cache, k), "*storage.InvalidEntityCacheEntry") && ts(as(gmap("cache", cache, k), "*storage.InvalidEntityCacheEntry").LastModified) > ts(t)

//@ func (*CachedTupleReader).isCacheEntryInvalidated(c, invalidKey, lastModified) (b)
//@   property C11
//@   option nosafety
//@   modifies nothing
//@   ensures b <==> markerAfter(c.cache, invalidKey, lastModified)

//@ func (*CachedTupleReader).isStoreInvalidated(c, storeID, lastModified) (b)
//@   property C11
//@   option nosafety
//@   modifies nothing
//@   ensures b <==> markerAfter(c.cache, storage.InvalidIteratorCacheKey(storeID), lastModified)

//@ func (*CachedTupleReader).tryGetFromCache(c, cacheKey, storeID, objectType, relation, operation, invalidEntityKeys) (it)
//@   property C11
//@   option nosafety
//@   ensures @served it != nil ==> typeIs(old(gmap("cache", c.cache, cacheKey)), "*storagewrappers.V2IteratorCacheEntry") && !old(markerAfter(c.cache, storage.InvalidIteratorCacheKey(storeID), as(gmap("cache", c.cache, cacheKey), "*storagewrappers.V2IteratorCacheEntry").LastModified)) && (forall i :: 0 <= i && i < len(invalidEntityKeys) ==> !old(markerAfter(c.cache, invalidEntityKeys[i], as(gmap("cache", c.cache, cacheKey), "*storagewrappers.V2IteratorCacheEntry").LastModified)))
//@   loop 0 invariant forall j :: 0 <= j && j <= $idx ==> !old(markerAfter(c.cache, invalidEntityKeys[j], as(gmap("cache", c.cache, cacheKey), "*storagewrappers.V2IteratorCacheEntry").LastModified))
