//go:build verif

// Contracts for package storagewrappers, checked by /verif/govc. Comment-only; compiled only under the build tag "verif".
package storagewrappers

//@ func (*CachedDatastore).Read(c, ctx, store, filter, options) (res, err)
//@   property C10
//@   option nosafety
//@   requires c != nil && c.RelationshipTupleReader != nil
//@   ensures @higherBypass options.Consistency.Preference == openfgav1.ConsistencyPreference_HIGHER_CONSISTENCY ==> innerCalled && res == innerIt && err == innerErr && innerStore == store && innerFilter == filter && innerOpts == options
//@   monitor noCacheOnHigher
//@     ghost innerCalled = false
//@     ghost innerIt iface = nil
//@     ghost innerErr error = nil
//@     ghost innerStore string = ""
//@     ghost innerFilter S_storage.ReadFilter = filter
//@     ghost innerOpts S_storage.ReadOptions = options
//@     after call storage.RelationshipTupleReader.Read args _, _, a_store, a_filter, a_opts returning it, e : innerCalled = true ; innerIt = it ; innerErr = e ; innerStore = a_store ; innerFilter = a_filter ; innerOpts = a_opts
//@     before call (*storagewrappers.CachedDatastore).newCachedIterator* | storagewrappers.findInCache | storagewrappers.isInvalidAt | storage.InMemoryCache.* | storage.Read*Key : assert options.Consistency.Preference != openfgav1.ConsistencyPreference_HIGHER_CONSISTENCY

//@ func (*CachedDatastore).ReadUsersetTuples(c, ctx, store, filter, options) (res, err)
//@   property C10
//@   option nosafety
//@   requires c != nil && c.RelationshipTupleReader != nil
//@   ensures @higherBypass options.Consistency.Preference == openfgav1.ConsistencyPreference_HIGHER_CONSISTENCY ==> innerCalled && res == innerIt && err == innerErr && innerStore == store && innerFilter == filter && innerOpts == options
//@   monitor noCacheOnHigher
//@     ghost innerCalled = false
//@     ghost innerIt iface = nil
//@     ghost innerErr error = nil
//@     ghost innerStore string = ""
//@     ghost innerFilter S_storage.ReadUsersetTuplesFilter = filter
//@     ghost innerOpts S_storage.ReadUsersetTuplesOptions = options
//@     after call storage.RelationshipTupleReader.ReadUsersetTuples args _, _, a_store, a_filter, a_opts returning it, e : innerCalled = true ; innerIt = it ; innerErr = e ; innerStore = a_store ; innerFilter = a_filter ; innerOpts = a_opts
//@     before call (*storagewrappers.CachedDatastore).newCachedIterator* | storagewrappers.findInCache | storagewrappers.isInvalidAt | storage.InMemoryCache.* | storage.Read*Key : assert options.Consistency.Preference != openfgav1.ConsistencyPreference_HIGHER_CONSISTENCY

//@ func (*CachedDatastore).ReadStartingWithUser(c, ctx, store, filter, options) (res, err)
//@   property C10
//@   option nosafety
//@   requires c != nil && c.RelationshipTupleReader != nil
//@   ensures @higherBypass options.Consistency.Preference == openfgav1.ConsistencyPreference_HIGHER_CONSISTENCY ==> innerCalled && res == innerIt && err == innerErr && innerStore == store && innerFilter == filter && innerOpts == options
//@   monitor noCacheOnHigher
//@     ghost innerCalled = false
//@     ghost innerIt iface = nil
//@     ghost innerErr error = nil
//@     ghost innerStore string = ""
//@     ghost innerFilter S_storage.ReadStartingWithUserFilter = filter
//@     ghost innerOpts S_storage.ReadStartingWithUserOptions = options
//@     after call storage.RelationshipTupleReader.ReadStartingWithUser args _, _, a_store, a_filter, a_opts returning it, e : innerCalled = true ; innerIt = it ; innerErr = e ; innerStore = a_store ; innerFilter = a_filter ; innerOpts = a_opts
//@     before call (*storagewrappers.CachedDatastore).newCachedIterator* | storagewrappers.findInCache | storagewrappers.isInvalidAt | storage.InMemoryCache.* | storage.Read*Key : assert options.Consistency.Preference != openfgav1.ConsistencyPreference_HIGHER_CONSISTENCY

//@ func (*CachedTupleReader).Read(c, ctx, storeID, filter, opts) (res, err)
//@   property C10
//@   option nosafety
//@   requires c != nil && c.delegate != nil
//@   ensures @higherBypass opts.Consistency.Preference == openfgav1.ConsistencyPreference_HIGHER_CONSISTENCY ==> innerCalled && res == innerIt && err == innerErr && innerStore == storeID && innerFilter == filter && innerOpts == opts
//@   monitor noCacheOnHigher
//@     ghost innerCalled = false
//@     ghost innerIt iface = nil
//@     ghost innerErr error = nil
//@     ghost innerStore string = ""
//@     ghost innerFilter S_storage.ReadFilter = filter
//@     ghost innerOpts S_storage.ReadOptions = opts
//@     after call storage.RelationshipTupleReader.Read args _, _, a_store, a_filter, a_opts returning it, e : innerCalled = true ; innerIt = it ; innerErr = e ; innerStore = a_store ; innerFilter = a_filter ; innerOpts = a_opts
//@     before call (*storagewrappers.CachedTupleReader).tryGetFromCache | storagewrappers.newCachingIterator | storage.InMemoryCache.* | storage.Read*Key : assert opts.Consistency.Preference != openfgav1.ConsistencyPreference_HIGHER_CONSISTENCY

//@ func (*CachedTupleReader).ReadUsersetTuples(c, ctx, storeID, filter, opts) (res, err)
//@   property C10
//@   option nosafety
//@   requires c != nil && c.delegate != nil
//@   ensures @higherBypass opts.Consistency.Preference == openfgav1.ConsistencyPreference_HIGHER_CONSISTENCY ==> innerCalled && res == innerIt && err == innerErr && innerStore == storeID && innerFilter == filter && innerOpts == opts
//@   monitor noCacheOnHigher
//@     ghost innerCalled = false
//@     ghost innerIt iface = nil
//@     ghost innerErr error = nil
//@     ghost innerStore string = ""
//@     ghost innerFilter S_storage.ReadUsersetTuplesFilter = filter
//@     ghost innerOpts S_storage.ReadUsersetTuplesOptions = opts
//@     after call storage.RelationshipTupleReader.ReadUsersetTuples args _, _, a_store, a_filter, a_opts returning it, e : innerCalled = true ; innerIt = it ; innerErr = e ; innerStore = a_store ; innerFilter = a_filter ; innerOpts = a_opts
//@     before call (*storagewrappers.CachedTupleReader).tryGetFromCache | storagewrappers.newCachingIterator | storage.InMemoryCache.* | storage.Read*Key : assert opts.Consistency.Preference != openfgav1.ConsistencyPreference_HIGHER_CONSISTENCY

//@ func (*CachedTupleReader).ReadStartingWithUser(c, ctx, storeID, filter, opts) (res, err)
//@   property C10
//@   option nosafety
//@   requires c != nil && c.delegate != nil
//@   ensures @higherBypass opts.Consistency.Preference == openfgav1.ConsistencyPreference_HIGHER_CONSISTENCY ==> innerCalled && res == innerIt && err == innerErr && innerStore == storeID && innerFilter == filter && innerOpts == opts
//@   monitor noCacheOnHigher
//@     ghost innerCalled = false
//@     ghost innerIt iface = nil
//@     ghost innerErr error = nil
//@     ghost innerStore string = ""
//@     ghost innerFilter S_storage.ReadStartingWithUserFilter = filter
//@     ghost innerOpts S_storage.ReadStartingWithUserOptions = opts
//@     after call storage.RelationshipTupleReader.ReadStartingWithUser args _, _, a_store, a_filter, a_opts returning it, e : innerCalled = true ; innerIt = it ; innerErr = e ; innerStore = a_store ; innerFilter = a_filter ; innerOpts = a_opts
//@     before call (*storagewrappers.CachedTupleReader).tryGetFromCache | storagewrappers.newCachingIterator | storage.InMemoryCache.* | storage.Read*Key : assert opts.Consistency.Preference != openfgav1.ConsistencyPreference_HIGHER_CONSISTENCY


// ------------------------------------------------------------------ C11: validity tests of the iterator caches

// an invalidation marker stored under k that is newer than time t
//@ spec markerNewer(cache iface, k S_keys.Key, t S_time.Time) bool = typeIs(gmap("cache", cache, k), "*storage.InvalidEntityCacheEntry") && ts(t) < ts(as(gmap("cache", cache, k), "*storage.InvalidEntityCacheEntry").LastModified)

//@ func isInvalidAt(cache, ts, invalidStore, invalidEntityKeys) (b)
//@   property C11
//@   option nosafety
//@   modifies nothing
//@   loop 0 invariant forall j :: 0 <= j && j <= $idx ==> !markerNewer(cache, invalidEntityKeys[j], ts)
//@   ensures @anyMarker b ==> (markerNewer(cache, invalidStore, ts) || exists i :: 0 <= i && i < len(invalidEntityKeys) && markerNewer(cache, invalidEntityKeys[i], ts))
//@   ensures @noMarker !b ==> !markerNewer(cache, invalidStore, ts) && (forall i :: 0 <= i && i < len(invalidEntityKeys) ==> !markerNewer(cache, invalidEntityKeys[i], ts))

// "no entry populated before an invalidation marker is served": an entry is returned only if it is the iterator entry
// stored under key and no store-wide or entity marker is newer than it; a stale entry is deleted, nothing else is touched
//@ func findInCache(cache, key, storeKey, invalidEntityKeys) (e, ok)
//@   property C11
//@   option nosafety
//@   modifies GM:cache
//@   ensures @served ok ==> e != nil && typeIs(old(gmap("cache", cache, key)), "*storage.TupleIteratorCacheEntry") && e == as(old(gmap("cache", cache, key)), "*storage.TupleIteratorCacheEntry") && !old(markerNewer(cache, storeKey, e.LastModified)) && (forall i :: 0 <= i && i < len(invalidEntityKeys) ==> !old(markerNewer(cache, invalidEntityKeys[i], e.LastModified)))
//@   ensures @notServed !ok ==> e == nil

// second iterator cache (CachedTupleReader): same statement with strict "marker after entry"
//@ spec markerAfter(cache iface, k S_keys.Key, t S_time.Time) bool = typeIs(gmap("cache", cache, k), "*storage.InvalidEntityCacheEntry") && ts(as(gmap("cache", cache, k), "*storage.InvalidEntityCacheEntry").LastModified) > ts(t)

//@ func (*CachedTupleReader).isCacheEntryInvalidated(c, invalidKey, lastModified) (b)
//@   property C11
//@   option nosafety
//@   modifies nothing
//@   ensures b <==> markerAfter(c.cache, invalidKey, lastModified)

//@ func (*CachedTupleReader).isStoreInvalidated(c, storeID, lastModified) (b)
//@   property C11
//@   option nosafety
//@   modifies nothing
//@   ensures b <==> markerAfter(c.cache, storage.InvalidIteratorCacheKey(storeID), lastModified)

//@ func (*CachedTupleReader).tryGetFromCache(c, cacheKey, storeID, objectType, relation, operation, invalidEntityKeys) (it)
//@   property C11
//@   option nosafety
//@   ensures @served it != nil ==> typeIs(old(gmap("cache", c.cache, cacheKey)), "*storagewrappers.V2IteratorCacheEntry") && !old(markerAfter(c.cache, storage.InvalidIteratorCacheKey(storeID), as(gmap("cache", c.cache, cacheKey), "*storagewrappers.V2IteratorCacheEntry").LastModified)) && (forall i :: 0 <= i && i < len(invalidEntityKeys) ==> !old(markerAfter(c.cache, invalidEntityKeys[i], as(gmap("cache", c.cache, cacheKey), "*storagewrappers.V2IteratorCacheEntry").LastModified)))
//@   loop 0 invariant forall j :: 0 <= j && j <= $idx ==> !old(markerAfter(c.cache, invalidEntityKeys[j], as(gmap("cache", c.cache, cacheKey), "*storagewrappers.V2IteratorCacheEntry").LastModified))


// ------------------------------------------------------------------ C04: contextual tuples are merged into every read
// a contextual tuple is selected by the same predicates the stores apply: object ("" = any), relation ("" = any),
// user in the given list (empty list = any)
//@ spec ctxMatches(k ref, o string, r string, us slice) bool = (o == "" || k.GetObject() == o) && (r == "" || k.GetRelation() == r) && (len(us) == 0 || sliceContains(us, k.GetUser()))

//@ func filterTuples(tuples, targetObject, targetRelation, targetUsers) (res)
//@   property C04
//@   option nosafety
//@   modifies nothing
//@   loop 0 invariant forall i int :: 0 <= i && i < len(filtered) ==> filtered[i] != nil && ctxMatches(filtered[i].Key, targetObject, targetRelation, targetUsers)
//@   ensures @onlyMatching forall i int :: 0 <= i && i < len(res) ==> res[i] != nil && ctxMatches(res[i].Key, targetObject, targetRelation, targetUsers)

//@ func (*CombinedTupleReader).Read(c, ctx, storeID, filter, options) (res, err)
//@   property C04
//@   option nosafety
//@   ensures @merged err == nil ==> innerCalled && innerErr == nil && combined && res == combinedRes
//@   ensures @innerError innerCalled && innerErr != nil ==> err == innerErr && res == nil
//@   monitor merge
//@     ghost filteredTs []*openfgav1.Tuple = filteredTs
//@     ghost staticIt iface = nil
//@     ghost innerCalled = false
//@     ghost innerIt iface = nil
//@     ghost innerErr error = nil
//@     ghost combined = false
//@     ghost combinedRes iface = nil
//@     before call storagewrappers.filterTuples args ts, o, r, us : assert ts == c.contextualTuplesOrderedByObjectID && o == filter.Object && r == filter.Relation && len(us) == 0
//@     after call storagewrappers.filterTuples returning f : filteredTs = f
//@     before call storage.NewStaticTupleIterator args ts : assert ts == filteredTs
//@     after call storage.NewStaticTupleIterator returning it : staticIt = it
//@     before call storage.RelationshipTupleReader.Read args _, _, s, f, o : assert s == storeID && f == filter && o == options
//@     after call storage.RelationshipTupleReader.Read returning it, e : innerCalled = true ; innerIt = it ; innerErr = e
//@     before call storage.NewCombinedIterator args its : assert len(its) == 2 && ((its[0] == staticIt && its[1] == innerIt) || (its[1] == staticIt && its[0] == innerIt))
//@     after call storage.NewCombinedIterator returning r : combined = true ; combinedRes = r

// a contextual tuple answers the lookup only if it has exactly the requested object, relation and user; otherwise the
// store is asked with the same filter
//@ func (*CombinedTupleReader).ReadUserTuple(c, ctx, store, filter, options) (res, err)
//@   property C04
//@   option nosafety
//@   ensures @contextualHit !innerCalled ==> err == nil && res != nil && res.GetKey().GetUser() == filter.User && (filter.Object == "" || res.GetKey().GetObject() == filter.Object) && (filter.Relation == "" || res.GetKey().GetRelation() == filter.Relation)
//@   ensures @fallsThrough innerCalled ==> res == innerRes && err == innerErr
//@   monitor merge
//@     ghost innerCalled = false
//@     ghost innerRes *openfgav1.Tuple = nil
//@     ghost innerErr error = nil
//@     before call storagewrappers.filterTuples args ts, o, r, us : assert ts == c.contextualTuplesOrderedByObjectID && o == filter.Object && r == filter.Relation && len(us) == 1 && us[0] == filter.User
//@     before call storage.RelationshipTupleReader.ReadUserTuple args _, _, s, f, o : assert s == store && f == filter && o == options
//@     after call storage.RelationshipTupleReader.ReadUserTuple returning t, e : innerCalled = true ; innerRes = t ; innerErr = e

// the userset / typed-wildcard restriction a contextual tuple must fit is the one the stores apply
//@ spec restrFits(r ref, user string) bool = (typeIs(r.GetRelationOrWildcard(), "*openfgav1.RelationReference_Wildcard") && tuple.IsTypedWildcard(user) && tuple.GetType(user) == r.GetType()) || (typeIs(r.GetRelationOrWildcard(), "*openfgav1.RelationReference_Relation") && tuple.IsObjectRelation(user) && tuple.GetType(user) == r.GetType() && tuple.GetRelation(user) == r.GetRelation())

//@ func tupleMatchesAllowedUserTypeRestrictions(t, allowedUserTypeRestrictions) (b)
//@   property C04
//@   option nosafety
//@   modifies nothing
//@   loop 0 invariant forall j int :: 0 <= j && j <= $idx ==> !restrFits(allowedUserTypeRestrictions[j], t.GetKey().GetUser())
//@   ensures @onlyFitting b ==> tuple.GetUserTypeFromUser(t.GetKey().GetUser()) == tuple.UserSet && (exists k int :: 0 <= k && k < len(allowedUserTypeRestrictions) && restrFits(allowedUserTypeRestrictions[k], t.GetKey().GetUser()))
//@   ensures @allFitting !b ==> tuple.GetUserTypeFromUser(t.GetKey().GetUser()) != tuple.UserSet || (forall k int :: 0 <= k && k < len(allowedUserTypeRestrictions) ==> !restrFits(allowedUserTypeRestrictions[k], t.GetKey().GetUser()))

//@ func (*CombinedTupleReader).ReadUsersetTuples(c, ctx, store, filter, options) (res, err)
//@   property C04
//@   option nosafety
//@   ensures @merged err == nil ==> innerCalled && innerErr == nil && combined && res == combinedRes
//@   ensures @innerError innerCalled && innerErr != nil ==> err == innerErr && res == nil
//@   monitor merge
//@     ghost staticIt iface = nil
//@     ghost innerCalled = false
//@     ghost innerIt iface = nil
//@     ghost innerErr error = nil
//@     ghost combined = false
//@     ghost combinedRes iface = nil
//@     before call storagewrappers.filterTuples args ts, o, r, us : assert ts == c.contextualTuplesOrderedByObjectID && o == filter.Object && r == filter.Relation && len(us) == 0
//@     before call storagewrappers.tupleMatchesAllowedUserTypeRestrictions args t, rs : assert rs == filter.AllowedUserTypeRestrictions
//@     after call storage.NewStaticTupleIterator returning it : staticIt = it
//@     before call storage.RelationshipTupleReader.ReadUsersetTuples args _, _, s, f, o : assert s == store && f == filter && o == options
//@     after call storage.RelationshipTupleReader.ReadUsersetTuples returning it, e : innerCalled = true ; innerIt = it ; innerErr = e
//@     before call storage.NewCombinedIterator args its : assert len(its) == 2 && ((its[0] == staticIt && its[1] == innerIt) || (its[1] == staticIt && its[0] == innerIt))
//@     after call storage.NewCombinedIterator returning r : combined = true ; combinedRes = r

//@ func (*CombinedTupleReader).ReadStartingWithUser(c, ctx, store, filter, options) (res, err)
//@   property C04
//@   option nosafety
//@   ensures @merged err == nil ==> innerCalled && innerErr == nil && ((combined && res == combinedRes) || (ordered && typeIs(res, "*storage.OrderedCombinedIterator") && as(res, "*storage.OrderedCombinedIterator") == orderedRes))
//@   ensures @innerError innerCalled && innerErr != nil ==> err == innerErr && res == nil
//@   monitor merge
//@     ghost staticIt iface = nil
//@     ghost innerCalled = false
//@     ghost innerIt iface = nil
//@     ghost innerErr error = nil
//@     ghost combined = false
//@     ghost combinedRes iface = nil
//@     ghost ordered = false
//@     ghost orderedRes *storage.OrderedCombinedIterator = nil
//@     before call storagewrappers.filterTuples args ts, o, r, us : assert ts == c.contextualTuplesOrderedByObjectID && o == "" && r == filter.Relation
//@     after call storage.NewStaticTupleIterator returning it : staticIt = it
//@     before call storage.RelationshipTupleReader.ReadStartingWithUser args _, _, s, f, o : assert s == store && f == filter && o == options
//@     after call storage.RelationshipTupleReader.ReadStartingWithUser returning it, e : innerCalled = true ; innerIt = it ; innerErr = e
//@     before call storage.NewCombinedIterator args its : assert !options.WithResultsSortedAscending && len(its) == 2 && ((its[0] == staticIt && its[1] == innerIt) || (its[1] == staticIt && its[0] == innerIt))
//@     after call storage.NewCombinedIterator returning r : combined = true ; combinedRes = r
//@     before call storage.NewOrderedCombinedIterator args m, its : assert options.WithResultsSortedAscending && len(its) == 2 && ((its[0] == staticIt && its[1] == innerIt) || (its[1] == staticIt && its[0] == innerIt))
//@     after call storage.NewOrderedCombinedIterator returning r : ordered = true ; orderedRes = r


// ------------------------------------------------------------------ C09: a partially read result is never cached as complete
// the read-through buffer is exactly the prefix read so far, in order; it is dropped (never cached) as soon as the
// underlying iterator fails with anything but done/cancelled or the size limit is reached; a closing iterator yields
// nothing; the tuple returned is the underlying iterator's
//@ func (*cachedIterator).Next(c, ctx) (t, err)
//@   property C09
//@   option nosafety
//@   option stable c
//@   option defer_neutral
//@   ensures @passThrough err == nil ==> nexted && nextErr == nil && t == nextT
//@   ensures @appended err == nil && old(c.tuples) != nil && len(old(c.tuples)) + 1 < c.maxResultSize ==> len(c.tuples) == len(old(c.tuples)) + 1 && c.tuples[len(old(c.tuples))] == t
//@   ensures @overflowDrops err == nil && old(c.tuples) != nil && len(old(c.tuples)) + 1 >= c.maxResultSize ==> len(c.tuples) == 0
//@   ensures @failureDrops nexted && nextErr != nil && !errIs(nextErr, storage.ErrIteratorDone) && !errIs(nextErr, context.Canceled) && !errIs(nextErr, context.DeadlineExceeded) ==> len(c.tuples) == 0
//@   monitor inner
//@     ghost nexted = false
//@     ghost nextT *openfgav1.Tuple = nil
//@     ghost nextErr error = nil
//@     after call storage.Iterator.Next | storage.TupleIterator.Next returning x, e : nexted = true ; nextT = x ; nextErr = e

// the background completion on Stop: every tuple already read is put into the buffer before anything else is read,
// the rest is read from the same iterator, and the buffer is flushed to the cache only when the underlying iterator
// reported done (never after an error, a cancellation or an overflow), and only if no newer invalidation / entry exists
//@ func (*cachedIterator).Stop$1()
//@   property C09
//@   option nosafety
//@   option defer_neutral
//@   loop 0 invariant added == $idx + 1 && $idx < old(len(deref(c).tuples))
//@   monitor drain
//@     ghost added int = 0
//@     ghost prefixDone = false
//@     ghost freshChecked = false
//@     ghost notInvalid = false
//@     ghost lastDone = false
//@     after call storagewrappers.findInCache returning e, ok : freshChecked = !ok
//@     after call storagewrappers.isInvalidAt returning b : notInvalid = !b
//@     after call (*storagewrappers.cachedIterator).addToBuffer args _, t : added = added + 1
//@     after call storage.Iterator.Head | storage.TupleIterator.Head returning x, e : lastDone = errIs(e, storage.ErrIteratorDone)
//@     before call (*storagewrappers.cachedIterator).flush : assert freshChecked && notInvalid && lastDone
//@     before call (*singleflight.Group).Do args _, k, f : assert freshChecked && notInvalid && closureOf(f, "Stop$1$1")
//@     before call (*singleflight.Group).Do args _ : assert added == old(len(deref(c).tuples))
//@     before call (*storagewrappers.cachedIterator).flush args _ : assert added == old(len(deref(c).tuples))

// the drain loop proper: flush only after the iterator reported done
//@ func (*cachedIterator).Stop$1$1() (v, err)
//@   property C09
//@   option nosafety
//@   monitor drain
//@     ghost lastDone = false
//@     after call storage.Iterator.Next | storage.TupleIterator.Next returning x, e : lastDone = errIs(e, storage.ErrIteratorDone)
//@     before call (*storagewrappers.cachedIterator).flush : assert lastDone

// what is cached is the buffer, stamped with the time the iterator was created (so that an invalidation after that
// time makes the entry stale), under the iterator's key; nothing is cached without a buffer or after cancellation
//@ func (*cachedIterator).flush(c)
//@   property C09 C11
//@   option nosafety
//@   option stable c
//@   monitor store
//@     before call storage.InMemoryCache.Set args _, k, v, ttl : assert old(c.tuples) != nil && k == c.cacheKey
//@     before call storage.InMemoryCache.Set args _, k, v, ttl : assert typeIs(v, "*storage.TupleIteratorCacheEntry") && as(v, "*storage.TupleIteratorCacheEntry").Tuples == old(c.records)
//@     before call storage.InMemoryCache.Set args _, k, v, ttl : assert as(v, "*storage.TupleIteratorCacheEntry").LastModified == c.initializedAt

// field elision: a field is blanked in the cached record exactly when the iterator knows it (same non-empty value);
// everything else is copied verbatim
//@ func (*cachedIterator).addToBuffer(c, t) (ok)
//@   property C09
//@   option nosafety
//@   option stable c
//@   ensures @noBuffer old(c.tuples) == nil ==> !ok && len(c.records) == len(old(c.records))
//@   ensures @appended old(c.tuples) != nil && len(old(c.records)) + 1 < c.maxResultSize ==> ok && len(c.records) == len(old(c.records)) + 1 && c.records[len(old(c.records))] != nil
//@   ensures @elided old(c.tuples) != nil && len(old(c.records)) + 1 < c.maxResultSize ==> c.records[len(old(c.records))].ObjectID == ((c.objectID != "" && c.objectID == tuple.SplitObject(t.GetKey().GetObject()).1) ? "" : tuple.SplitObject(t.GetKey().GetObject()).1) && c.records[len(old(c.records))].ObjectType == ((c.objectType != "" && c.objectType == tuple.SplitObject(t.GetKey().GetObject()).0) ? "" : tuple.SplitObject(t.GetKey().GetObject()).0) && c.records[len(old(c.records))].Relation == ((c.relation != "" && c.relation == t.GetKey().GetRelation()) ? "" : t.GetKey().GetRelation()) && c.records[len(old(c.records))].UserObjectType == ((c.userType != "" && c.userType == tuple.ToUserParts(t.GetKey().GetUser()).0) ? "" : tuple.ToUserParts(t.GetKey().GetUser()).0)
//@   ensures @verbatim old(c.tuples) != nil && len(old(c.records)) + 1 < c.maxResultSize ==> c.records[len(old(c.records))].UserObjectID == tuple.ToUserParts(t.GetKey().GetUser()).1 && c.records[len(old(c.records))].UserRelation == tuple.ToUserParts(t.GetKey().GetUser()).2 && c.records[len(old(c.records))].ConditionName == t.GetKey().GetCondition().GetName() && c.records[len(old(c.records))].ConditionContext == t.GetKey().GetCondition().GetContext()

// reconstruction: an elided (blank) field is filled from what the iterator knows; with the elision rule above a record
// built by addToBuffer is turned back into the tuple it came from
//@ func (*cachedTupleIterator).buildTuple(c, t) (res)
//@   property C09
//@   option nosafety
//@   option stable c
//@   ensures @object res != nil && res.Key != nil && res.Key.Object == tuple.BuildObject(old(c.objectType != "" ? c.objectType : t.ObjectType), old(c.objectID != "" ? c.objectID : t.ObjectID))
//@   ensures @relation res != nil && res.Key != nil && res.Key.Relation == old(c.relation != "" ? c.relation : t.Relation)
//@   ensures @user res != nil && res.Key != nil && res.Key.User == tuple.FromUserParts(old(c.userType != "" ? c.userType : t.UserObjectType), old(t.UserObjectID), old(t.UserRelation))

// ------------------------------------------------------------------ C19: no-panic sweep (thin, safety-only contracts)
// every index and slice expression of these functions is in range for ALL inputs, with no precondition (generated by
// bin/sweepgen, kept because every obligation discharges; callees without contract are treated as arbitrary)
//@ func (*CachingIterator).flush(recv)
//@   property C19
//@   option nosafety
//@   option safety slice,index

//@ func NewCombinedTupleReader(a0, a1) (r0)
//@   property C19
//@   option nosafety
//@   option safety slice,index

//@ func extractObjectID(a0) (r0)
//@   property C19
//@   option nosafety
//@   option safety slice,index
