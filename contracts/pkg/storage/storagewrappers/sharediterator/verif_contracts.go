//go:build verif

// Contracts for package sharediterator, checked by /verif/govc. Comment-only; compiled only under the build tag "verif".
package sharediterator

//@ func (*IteratorDatastore).Read(c, ctx, store, filter, options) (res, err)
//@   property C10
//@   option nosafety
//@   requires c != nil && c.RelationshipTupleReader != nil
//@   ensures @higherBypass options.Consistency.Preference == openfgav1.ConsistencyPreference_HIGHER_CONSISTENCY ==> innerCalled && res == innerIt && err == innerErr && innerStore == store && innerFilter == filter && innerOpts == options
//@   monitor noCacheOnHigher
//@     ghost innerCalled = false
//@     ghost innerIt iface = nil
//@     ghost innerErr error = nil
//@     ghost innerStore string = ""
//@     ghost innerFilter S_storage.ReadFilter = filter
//@     ghost innerOpts S_storage.ReadOptions = options
//@     after call storage.RelationshipTupleReader.Read args _, _, a_store, a_filter, a_opts returning it, e : innerCalled = true ; innerIt = it ; innerErr = e ; innerStore = a_store ; innerFilter = a_filter ; innerOpts = a_opts
//@     before call (*sync.Map).* | sharediterator.newSharedIterator | storage.Read*Key | (*sharediterator.sharedIterator).* : assert options.Consistency.Preference != openfgav1.ConsistencyPreference_HIGHER_CONSISTENCY

//@ func (*IteratorDatastore).ReadUsersetTuples(c, ctx, store, filter, options) (res, err)
//@   property C10
//@   option nosafety
//@   requires c != nil && c.RelationshipTupleReader != nil
//@   ensures @higherBypass options.Consistency.Preference == openfgav1.ConsistencyPreference_HIGHER_CONSISTENCY ==> innerCalled && res == innerIt && err == innerErr && innerStore == store && innerFilter == filter && innerOpts == options
//@   monitor noCacheOnHigher
//@     ghost innerCalled = false
//@     ghost innerIt iface = nil
//@     ghost innerErr error = nil
//@     ghost innerStore string = ""
//@     ghost innerFilter S_storage.ReadUsersetTuplesFilter = filter
//@     ghost innerOpts S_storage.ReadUsersetTuplesOptions = options
//@     after call storage.RelationshipTupleReader.ReadUsersetTuples args _, _, a_store, a_filter, a_opts returning it, e : innerCalled = true ; innerIt = it ; innerErr = e ; innerStore = a_store ; innerFilter = a_filter ; innerOpts = a_opts
//@     before call (*sync.Map).* | sharediterator.newSharedIterator | storage.Read*Key | (*sharediterator.sharedIterator).* : assert options.Consistency.Preference != openfgav1.ConsistencyPreference_HIGHER_CONSISTENCY

//@ func (*IteratorDatastore).ReadStartingWithUser(c, ctx, store, filter, options) (res, err)
//@   property C10
//@   option nosafety
//@   requires c != nil && c.RelationshipTupleReader != nil
//@   ensures @higherBypass options.Consistency.Preference == openfgav1.ConsistencyPreference_HIGHER_CONSISTENCY ==> innerCalled && res == innerIt && err == innerErr && innerStore == store && innerFilter == filter && innerOpts == options
//@   monitor noCacheOnHigher
//@     ghost innerCalled = false
//@     ghost innerIt iface = nil
//@     ghost innerErr error = nil
//@     ghost innerStore string = ""
//@     ghost innerFilter S_storage.ReadStartingWithUserFilter = filter
//@     ghost innerOpts S_storage.ReadStartingWithUserOptions = options
//@     after call storage.RelationshipTupleReader.ReadStartingWithUser args _, _, a_store, a_filter, a_opts returning it, e : innerCalled = true ; innerIt = it ; innerErr = e ; innerStore = a_store ; innerFilter = a_filter ; innerOpts = a_opts
//@     before call (*sync.Map).* | sharediterator.newSharedIterator | storage.Read*Key | (*sharediterator.sharedIterator).* : assert options.Consistency.Preference != openfgav1.ConsistencyPreference_HIGHER_CONSISTENCY


// ------------------------------------------------------------------ C23: the shared fetch
// the batch every consumer depends on is read with a context of its own (never a consumer's: a consumer that is
// cancelled or times out must not poison the shared sequence), and the new shared state is the old items followed by
// exactly the items read, with the read error recorded (an earlier error is kept)
//@ func (*sharedIterator).fetchMore(s)
//@   property C23 C09
//@   option nosafety
//@   monitor batch
//@     ghost bgMade = false
//@     ghost bg iface = nil
//@     ghost cur *sharediterator.iteratorState = nil
//@     ghost loaded = false
//@     after call context.Background returning c : bg = c ; bgMade = true
//@     before call (*sharediterator.iteratorReader*).Read args _, cx, b : assert bgMade && cx == bg
//@     after call (*atomic.Pointer*).Load returning st : cur = st ; loaded = true
//@     before call (*atomic.Pointer*).Store args _, ns : assert loaded && ns != nil && len(ns.items) == len(cur.items) + read && (e != nil ==> ns.err == e) && (e == nil ==> ns.err == cur.err)
//@     before call (*atomic.Pointer*).Store args _, ns : assert forall j int :: 0 <= j && j < len(cur.items) ==> ns.items[j] == cur.items[j]
