//go:build verif

// Contracts for package sharediterator, checked by /verif/govc. Comment-only; compiled only under the build tag "verif".
package sharediterator

//@ func (*IteratorDatastore).Read(c, ctx, store, filter, options) (res, err)
//@   property C10
//@   option nosafety
//@   requires c != nil && c.RelationshipTupleReader != nil
//@   ensures @higherBypass options.Consistency.Preference == openfgav1.ConsistencyPreference_HIGHER_CONSISTENCY ==> innerCalled && res == innerIt && err == innerErr && innerStore == store && innerFilter == filter && innerOpts == options
//@   monitor noCacheOnHigher
//@     ghost innerCalled = false
//@     ghost innerIt iface = nil
//@     ghost innerErr error = nil
//@     ghost innerStore string = ""
//@     ghost innerFilter S_storage.ReadFilter = filter
//@     ghost innerOpts S_storage.ReadOptions = options
//@     after call storage.RelationshipTupleReader.Read args _, _, a_store, a_filter, a_opts returning it, e : innerCalled = true ; innerIt = it ; innerErr = e ; innerStore = a_store ; innerFilter = a_filter ; innerOpts = a_opts
//@     before call (*sync.Map).* | sharediterator.newSharedIterator | storage.Read*Key | (*sharediterator.sharedIterator).* : assert options.Consistency.Preference != openfgav1.ConsistencyPreference_HIGHER_CONSISTENCY

//@ func (*IteratorDatastore).ReadUsersetTuples(c, ctx, store, filter, options) (res, err)
//@   property C10
//@   option nosafety
//@   requires c != nil && c.RelationshipTupleReader != nil
//@   ensures @higherBypass options.Consistency.Preference == openfgav1.ConsistencyPreference_HIGHER_CONSISTENCY ==> innerCalled && res == innerIt && err == innerErr && innerStore == store && innerFilter == filter && innerOpts == options
//@   monitor noCacheOnHigher
//@     ghost innerCalled = false
//@     ghost innerIt iface = nil
//@     ghost innerErr error = nil
//@     ghost innerStore string = ""
//@     ghost innerFilter S_storage.ReadUsersetTuplesFilter = filter
//@     ghost innerOpts S_storage.ReadUsersetTuplesOptions = options
//@     after call storage.RelationshipTupleReader.ReadUsersetTuples args _, _, a_store, a_filter, a_opts returning it, e : innerCalled = true ; innerIt = it ; innerErr = e ; innerStore = a_store ; innerFilter = a_filter ; innerOpts = a_opts
//@     before call (*sync.Map).* | sharediterator.newSharedIterator | storage.Read*Key | (*sharediterator.sharedIterator).* : assert options.Consistency.Preference != openfgav1.ConsistencyPreference_HIGHER_CONSISTENCY

//@ func (*IteratorDatastore).ReadStartingWithUser(c, ctx, store, filter, options) (res, err)
//@   property C10
//@   option nosafety
//@   requires c != nil && c.RelationshipTupleReader != nil
//@   ensures @higherBypass options.Consistency.Preference == openfgav1.ConsistencyPreference_HIGHER_CONSISTENCY ==> innerCalled && res == innerIt && err == innerErr && innerStore == store && innerFilter == filter && innerOpts == options
//@   monitor noCacheOnHigher
//@     ghost innerCalled = false
//@     ghost innerIt iface = nil
//@     ghost innerErr error = nil
//@     ghost innerStore string = ""
//@     ghost innerFilter S_storage.ReadStartingWithUserFilter = filter
//@     ghost innerOpts S_storage.ReadStartingWithUserOptions = options
//@     after call storage.RelationshipTupleReader.ReadStartingWithUser args _, _, a_store, a_filter, a_opts returning it, e : innerCalled = true ; innerIt = it ; innerErr = e ; innerStore = a_store ; innerFilter = a_filter ; innerOpts = a_opts
//@     before call (*sync.Map).* | sharediterator.newSharedIterator | storage.Read*Key | (*sharediterator.sharedIterator).* : assert options.Consistency.Preference != openfgav1.ConsistencyPreference_HIGHER_CONSISTENCY

