//go:build verif

// Contracts for package memory (in-memory datastore), checked by /verif/govc. Comment-only; build tag "verif".
package memory

// ------------------------------------------------------------------ C14: offset pagination

// Offsets come from continuation tokens (attacker-controlled after base64): the slice expressions must be in range for
// every integer strconv.Atoi can return (negative included). Page/token arithmetic is stated over the function's own
// locals at the return site: matches (the filtered records, already advanced to `from`), from, to (page size).
//@ func (*MemoryBackend).read(s, ctx, store, filter, options) (it, err)
//@   property C14 C19
//@   option nosafety
//@   option safety slice,index
//@   requires options == nil || options.Pagination.PageSize >= 0
//@   ensures @page err == nil && to != 0 && to < len(matches) ==> it != nil && len(it.records) == to && it.continuationToken == itoa(from + to) && from >= 0
//@   ensures @last err == nil && !(to != 0 && to < len(matches)) ==> it != nil && it.records == matches && it.continuationToken == ""

//@ func (*MemoryBackend).ReadAuthorizationModels(s, ctx, store, options) (res, token, err)
//@   property C14 C19
//@   option nosafety
//@   option safety slice,index
//@   ensures @window err == nil ==> 0 <= from && from <= to && to <= len(models) && len(res) == to - from && to == min(len(models), from + pageSize) && pageSize > 0
//@   ensures @token err == nil ==> (token == "" <==> to == len(models)) && (token != "" ==> token == itoa(to))
//@   ensures @cutFromSorted err == nil ==> sortedLast
//@   monitor order
//@     ghost sortedLast = false
//@     after call sort.SliceStable | sort.Slice args x, less : sortedLast = closureOf(less, "ReadAuthorizationModels$1")
//@     after call builtin.append : sortedLast = false

// the documented orders: models newest first (descending id), stores by ascending id — the comparators handed to the
// sort are exactly these, the page is cut from the sorted list
//@ func (*MemoryBackend).ReadAuthorizationModels$1(i, j) (r)
//@   property C14
//@   option nosafety
//@   ensures @newestFirst r <==> (deref(models)[i].GetId() > deref(models)[j].GetId())

//@ func (*MemoryBackend).ListStores$1(i, j) (r)
//@   property C14
//@   option nosafety
//@   ensures @byAscendingID r <==> (deref(stores)[i].GetId() < deref(stores)[j].GetId())

//@ func (*MemoryBackend).ListStores(s, ctx, options) (res, token, err)
//@   property C14 C19
//@   option nosafety
//@   option safety slice,index
//@   ensures @window err == nil && len(res) > 0 ==> 0 <= from && from <= to && to <= len(stores) && len(res) == to - from && to == min(len(stores), from + pageSize) && pageSize > 0
//@   ensures @token err == nil && len(res) > 0 ==> (token == "" <==> to == len(stores)) && (token != "" ==> token == itoa(to))
// the page is cut from the list as it was SORTED (by id): nothing is appended or re-filtered after the sort
//@   ensures @cutFromSorted err == nil && len(res) > 0 ==> sortedLast
//@   monitor order
//@     ghost sortedLast = false
//@     after call sort.SliceStable | sort.Slice args x, less : sortedLast = closureOf(less, "ListStores$1")
//@     after call builtin.append : sortedLast = false

// following tokens visits every index exactly once: pure arithmetic over the window contract above
//@ lemma pages_partition(n int, p int, f int)
//@   requires n >= 0 && p >= 1 && 0 <= f && f <= n
//@   ensures min(n, f + p) >= f && min(n, f + p) <= n && (f < n ==> min(n, f + p) > f) && (min(n, f + p) == n <==> f + p >= n)

// ------------------------------------------------------------------ C13: documented filter meaning (storage.ReadFilter)
// Object: "type:id" matches that object, "type:" matches every object of the type, "" matches all.
// Relation: "" matches all. User: "type:id" / "type:id#rel" / "type:*" match exactly, "type:" matches every user of the type.
//@ spec objectMatches(t ref, obj string) bool = obj == "" || (tuple.SplitObject(obj).1 == "" ? tuple.SplitObject(obj).0 == t.ObjectType : (tuple.SplitObject(obj).0 == t.ObjectType && tuple.SplitObject(obj).1 == t.ObjectID))
//@ spec relationMatches(t ref, rel string) bool = rel == "" || t.Relation == rel
//@ spec userMatches(t ref, user string) bool = user == "" || (tuple.ToUserParts(user).1 != "" ? t.User == user : hasPrefix(t.User, tuple.ToUserParts(user).0 + ":"))

//@ func match(t, target) (b)
//@   property C13 C14
//@   option nosafety
//@   modifies nothing
//@   ensures @documented b <==> (objectMatches(t, target.GetObject()) && relationMatches(t, target.GetRelation()) && userMatches(t, target.GetUser()))

// condition-name filter: "" stands for unconditioned tuples; an empty list is no filter
//@ spec conditionMatches(r ref, conds slice) bool = len(conds) == 0 || sliceContains(conds, r.ConditionName)

// ReadUsersetTuples: object, relation, userset-or-wildcard users only, condition names (the allowed (type, relation)
// pairs and absence of duplicates are not part of this contract)
//@ spec usersetRecordMatches(r ref, f S_storage.ReadUsersetTuplesFilter) bool = objectMatches(r, f.Object) && relationMatches(r, f.Relation) && tuple.GetUserTypeFromUser(r.User) == tuple.UserSet && conditionMatches(r, f.Conditions)

//@ func (*MemoryBackend).ReadUsersetTuples(s, ctx, store, filter, opts) (it, err)
//@   property C13
//@   option nosafety
//@   loop 0 invariant forall j :: 0 <= j && j < len(matches) ==> usersetRecordMatches(matches[j], filter)
//@   loop 1 invariant forall j :: 0 <= j && j < len(matches) ==> usersetRecordMatches(matches[j], filter)
//@   ensures @onlyMatching err == nil ==> forall i :: 0 <= i && i < len(as(it, "*staticIterator").records) ==> usersetRecordMatches(as(it, "*staticIterator").records[i], filter)

// ReadStartingWithUser: object type, relation, object-id set (an intersection), condition names, one of the user filters
//@ spec rswuRecordMatches(r ref, f S_storage.ReadStartingWithUserFilter) bool = r.ObjectType == f.ObjectType && r.Relation == f.Relation && conditionMatches(r, f.Conditions) && (exists k :: 0 <= k && k < len(f.UserFilter) && r.User == (f.UserFilter[k].GetRelation() != "" ? f.UserFilter[k].GetObject() + "#" + f.UserFilter[k].GetRelation() : f.UserFilter[k].GetObject()))

//@ func (*MemoryBackend).ReadUserTuple(s, ctx, store, filter, opts) (res, err)
//@   property C13
//@   option nosafety
//@   ensures @found err == nil ==> old(objectMatches(found, filter.Object) && relationMatches(found, filter.Relation) && userMatches(found, filter.User) && conditionMatches(found, filter.Conditions))
//@   monitor returned
//@     ghost found *storage.TupleRecord = nil
//@     after call (*storage.TupleRecord).AsTuple args r : found = r

// ------------------------------------------------------------------ C31 / C16: assertions are kept verbatim per (store, model)
// the key of a (store, model) pair; "|" occurs in neither a store id nor a model id (both are ULIDs), so distinct pairs
// have distinct keys (lemma below)
//@ spec assertionsKey(store string, model string) string = store + "|" + model

//@ func (*MemoryBackend).WriteAssertions(s, ctx, store, modelID, assertions) (err)
//@   property C31 C16
//@   option nosafety
//@   modifies MapD:String MapV:String:Slice
//@   requires s != nil && s.assertions != nil
//@   ensures @ok err == nil
//@   ensures @stored inDom(s.assertions, assertionsKey(store, modelID)) && s.assertions[assertionsKey(store, modelID)] == assertions
//@   ensures @othersUntouched forall k string :: k != assertionsKey(store, modelID) ==> (inDom(s.assertions, k) <==> old(inDom(s.assertions, k))) && s.assertions[k] == old(s.assertions[k])
//@   ensures @sameMap s.assertions == old(s.assertions)

//@ func (*MemoryBackend).ReadAssertions(s, ctx, store, modelID) (res, err)
//@   property C31 C16
//@   option nosafety
//@   modifies nothing
//@   requires s != nil
//@   ensures @ok err == nil
//@   ensures @verbatim old(inDom(s.assertions, assertionsKey(store, modelID))) ==> res == old(s.assertions[assertionsKey(store, modelID)])
//@   ensures @neverWritten !old(inDom(s.assertions, assertionsKey(store, modelID))) ==> len(res) == 0
//@   ensures @readOnly forall k string :: (inDom(s.assertions, k) <==> old(inDom(s.assertions, k))) && s.assertions[k] == old(s.assertions[k])

// after a write, reading the same pair returns exactly the list written; a different pair is unaffected
//@ lemma assertions_roundtrip(s *MemoryBackend, ctx context.Context, store string, model string, as []*openfgav1.Assertion, store2 string, model2 string)
//@   property C31 C16
//@   requires s != nil && s.assertions != nil
//@   requires !containsByte(store, '|') && !containsByte(store2, '|') && !containsByte(model, '|') && !containsByte(model2, '|')
//@   let before, e0 = (*MemoryBackend).ReadAssertions(s, ctx, store2, model2)
//@   let e1 = (*MemoryBackend).WriteAssertions(s, ctx, store, model, as)
//@   let got, e2 = (*MemoryBackend).ReadAssertions(s, ctx, store, model)
//@   let other, e3 = (*MemoryBackend).ReadAssertions(s, ctx, store2, model2)
//@   ensures @same got == as
//@   ensures @isolated (store2 != store || model2 != model) ==> (other == before || (len(other) == 0 && len(before) == 0))

// ------------------------------------------------------------------ C12: on_missing / on_duplicate and all-or-nothing
//@ spec recMatches(t ref, obj string, rel string, user string) bool = t != nil && objectMatches(t, obj) && relationMatches(t, rel) && userMatches(t, user)

//@ func find(records, tupleKey) (r)
//@   property C12
//@   option nosafety
//@   modifies nothing
//@   requires forall j int :: 0 <= j && j < len(records) ==> records[j] != nil
//@   loop 0 invariant forall j int :: 0 <= j && j <= $idx ==> !recMatches(records[j], tupleKey.GetObject(), tupleKey.GetRelation(), tupleKey.GetUser())
//@   ensures @present r != nil ==> recMatches(r, tupleKey.GetObject(), tupleKey.GetRelation(), tupleKey.GetUser()) && (exists j int :: 0 <= j && j < len(records) && records[j] == r)
//@   ensures @absent r == nil ==> forall j int :: 0 <= j && j < len(records) ==> !recMatches(records[j], tupleKey.GetObject(), tupleKey.GetRelation(), tupleKey.GetUser())

// the whole request is refused (nothing is returned for the apply step) unless every delete of a missing tuple is
// covered by on_missing=ignore and every write of an existing tuple is covered by on_duplicate=ignore with the same
// condition name and context
//@ func sanitizeTuplesWriteDelete(records, deletes, writes, opts) (dd, dw, err)
//@   property C12
//@   option nosafety
//@   modifies nothing
//@   requires forall j int :: 0 <= j && j < len(records) ==> records[j] != nil
//@   loop 0 invariant forall j int :: 0 <= j && j <= $idx ==> ((forall k int :: 0 <= k && k < len(records) ==> !recMatches(records[k], deletes[j].GetObject(), deletes[j].GetRelation(), deletes[j].GetUser())) ==> opts.OnMissingDelete == storage.OnMissingDeleteIgnore)
//@   loop 1 invariant forall j int :: 0 <= j && j <= $idx ==> ((exists k int :: 0 <= k && k < len(records) && recMatches(records[k], writes[j].GetObject(), writes[j].GetRelation(), writes[j].GetUser())) ==> opts.OnDuplicateInsert == storage.OnDuplicateInsertIgnore)
//@   ensures @missingDeletes err == nil ==> forall j int :: 0 <= j && j < len(deletes) ==> ((forall k int :: 0 <= k && k < len(records) ==> !recMatches(records[k], deletes[j].GetObject(), deletes[j].GetRelation(), deletes[j].GetUser())) ==> opts.OnMissingDelete == storage.OnMissingDeleteIgnore)
//@   ensures @duplicateWrites err == nil ==> forall j int :: 0 <= j && j < len(writes) ==> ((exists k int :: 0 <= k && k < len(records) && recMatches(records[k], writes[j].GetObject(), writes[j].GetRelation(), writes[j].GetUser())) ==> opts.OnDuplicateInsert == storage.OnDuplicateInsertIgnore)
//@   ensures @failClosed err != nil ==> len(dd) == 0 && len(dw) == 0

// "either applies all ... or changes nothing": a refused request leaves every store's tuples and changelog as they were
//@ func (*MemoryBackend).Write(s, ctx, store, deletes, writes, opts) (err)
//@   property C12 C16 C14 C15
//@   option nosafety
//@   requires s != nil
//@   requires @noNilRecords forall j int :: 0 <= j && j < len(s.tuples[store]) ==> s.tuples[store][j] != nil
//@   ensures @refusedChangesNothing err != nil ==> forall k string :: (inDom(s.tuples, k) <==> old(inDom(s.tuples, k))) && s.tuples[k] == old(s.tuples[k]) && (inDom(s.changes, k) <==> old(inDom(s.changes, k))) && s.changes[k] == old(s.changes[k])
//@   ensures @validatedFirst err == nil ==> sanitized && sanErr == nil
//@   monitor validateThenApply
//@     ghost sanitized = false
//@     ghost sanErr error = nil
//@     before call memory.sanitizeTuplesWriteDelete args recs, dels, wrs, o : assert recs == s.tuples[store] && dels == deletes && wrs == writes
//@     after call memory.sanitizeTuplesWriteDelete returning a, b, e : sanitized = true ; sanErr = e
// the whole request — commit timestamp, validation against the current tuples, and the application — runs inside ONE
// critical section of the tuples mutex held for writing: validation and application see the same state (C12), and
// commit timestamps (from which the changelog ULIDs that ReadChanges pages by are derived) are taken in commit order (C14)
// the changelog side of the apply loops (C15, "each successful write or delete produces exactly one change entry"):
// every stored tuple the delete loop has examined is either kept or — exactly when the request deletes it — logged as
// ONE delete change (loop 0 invariant: kept + delete changes == tuples examined); every
// record the request adds is logged as ONE write change (an ignored duplicate write adds neither); each change carries
// the request's commit timestamp, the right operation and the tuple's object, relation and user
//@   loop 0 invariant kept + chgD == $idx + 1 && added == 0 && chgW == 0 && len(records) == kept
//@   loop 1 invariant chgD == c0 && added == 0 && chgW == 0
//@   loop 2 invariant added == chgW && len(records) == kept + added
//@   ensures @oneChangePerAppliedChange err == nil ==> added == chgW
//@   option monitor_props criticalSection=C12,C14,C15 changelog=C15,C12
//@   monitor changelog
//@     ghost kept int = 0
//@     ghost added int = 0
//@     ghost chgD int = 0
//@     ghost chgW int = 0
//@     ghost k0 int = 0
//@     ghost c0 int = 0
//@     ghost writing = false
//@     after call (*storage.TupleRecord).AsTuple : k0 = kept ; c0 = chgD
//@     after call tuple.SplitObject : writing = true
//@     after call builtin.append:storage.TupleRecord : kept = kept + (writing ? 0 : 1) ; added = added + (writing ? 1 : 0)
//@     before call builtin.append:memory.tupleChangeRec args sl, add : assert len(add) == 1 && add[0] != nil && add[0].Change != nil && add[0].Change.Timestamp == now && add[0].Change.Operation == (writing ? openfgav1.TupleOperation_TUPLE_OPERATION_WRITE : openfgav1.TupleOperation_TUPLE_OPERATION_DELETE) && add[0].Change.TupleKey != nil && add[0].Change.TupleKey.Object == tk.GetObject() && add[0].Change.TupleKey.Relation == tk.GetRelation() && add[0].Change.TupleKey.User == tk.GetUser()
//@     after call builtin.append:memory.tupleChangeRec : chgD = chgD + (writing ? 0 : 1) ; chgW = chgW + (writing ? 1 : 0)
//@   monitor criticalSection
//@     ghost locked = false
//@     after call (*sync.RWMutex).Lock args m : locked = true
//@     after call (*sync.RWMutex).Unlock | (*sync.RWMutex).RLock | (*sync.RWMutex).RUnlock : locked = false
//@     before call timestamppb.Now : assert locked
//@     before call memory.sanitizeTuplesWriteDelete args _ : assert locked
//@     before call builtin.mapupdate:other args m, k, v : assert locked

// ------------------------------------------------------------------ C16 / C17: stores and models are kept per store id
//@ func (*MemoryBackend).GetStore(s, ctx, storeID) (res, err)
//@   property C16
//@   option nosafety
//@   modifies nothing
//@   ensures @thisStore err == nil ==> res != nil && inDom(s.stores, storeID) && res == s.stores[storeID]
//@   ensures @absent !inDom(s.stores, storeID) ==> err != nil && res == nil

// "A deleted store is no longer returned": afterwards the id is absent, every other store is untouched
//@ func (*MemoryBackend).DeleteStore(s, ctx, id) (err)
//@   property C16
//@   option nosafety
//@   ensures @gone !inDom(s.stores, id)
//@   ensures @othersUntouched forall k string :: k != id ==> (inDom(s.stores, k) <==> old(inDom(s.stores, k))) && s.stores[k] == old(s.stores[k])

//@ func (*MemoryBackend).CreateStore(s, ctx, newStore) (res, err)
//@   property C16
//@   option nosafety
//@   ensures @noOverwrite old(inDom(s.stores, newStore.GetId())) ==> err != nil && res == nil && s.stores[old(newStore.GetId())] == old(s.stores[newStore.GetId()])
//@   ensures @created !old(inDom(s.stores, newStore.GetId())) ==> err == nil && res != nil && inDom(s.stores, old(newStore.GetId())) && res == s.stores[old(newStore.GetId())] && res.Id == old(newStore.GetId()) && res.Name == old(newStore.GetName())
//@   ensures @othersUntouched forall k string :: k != old(newStore.GetId()) ==> (inDom(s.stores, k) <==> old(inDom(s.stores, k))) && s.stores[k] == old(s.stores[k])

// a model is looked up in the map of exactly this store, under exactly this id
//@ func findAuthorizationModelByID(id, configurations) (m, ok)
//@   property C16 C17
//@   option nosafety
//@   modifies nothing
//@   ensures @byID id != "" ==> (ok <==> inDom(configurations, id)) && (ok ==> m == configurations[id].model) && (!ok ==> m == nil)

//@ func (*MemoryBackend).ReadAuthorizationModel(s, ctx, store, id) (res, err)
//@   property C16 C17
//@   option nosafety
//@   modifies nothing
//@   ensures @thisStoreThisID err == nil && id != "" ==> inDom(s.authorizationModels, store) && inDom(s.authorizationModels[store], id) && res == s.authorizationModels[store][id].model
//@   ensures @unknownStore !inDom(s.authorizationModels, store) ==> err != nil && res == nil
//@   monitor scoped
//@     before call memory.findAuthorizationModelByID args i, tm : assert i == id && tm == s.authorizationModels[store]

//@ func (*MemoryBackend).FindLatestAuthorizationModel(s, ctx, store) (res, err)
//@   property C16 C17
//@   option nosafety
//@   modifies nothing
//@   ensures @unknownStore !inDom(s.authorizationModels, store) ==> err != nil && res == nil
//@   monitor scoped
//@     before call memory.findAuthorizationModelByID args i, tm : assert i == "" && tm == s.authorizationModels[store]

// the model is stored unchanged under (store, model id) and flagged latest; the model maps of other stores are the same objects as before
//@ func (*MemoryBackend).WriteAuthorizationModel(s, ctx, store, model) (err)
//@   property C16 C17
//@   option nosafety
//@   ensures @stored err == nil && inDom(s.authorizationModels, store) && inDom(s.authorizationModels[store], old(model.GetId())) && s.authorizationModels[store][old(model.GetId())].model == model && s.authorizationModels[store][old(model.GetId())].latest
//@   ensures @otherStores forall k string :: k != store ==> (inDom(s.authorizationModels, k) <==> old(inDom(s.authorizationModels, k))) && s.authorizationModels[k] == old(s.authorizationModels[k])

// ReadStartingWithUser (soundness of the type / relation / condition-name filters): every record handed back has the
// requested object type and relation and satisfies the condition-name filter ("" stands for unconditioned tuples: an
// unconditioned tuple passes only if "" is listed)
//@ spec rswuBasic(r ref, f S_storage.ReadStartingWithUserFilter) bool = r.ObjectType == f.ObjectType && r.Relation == f.Relation && conditionMatches(r, f.Conditions)
//@ func (*MemoryBackend).ReadStartingWithUser(s, ctx, store, filter, options) (it, err)
//@   property C13
//@   option nosafety
//@   option defer_neutral
//@   loop 0 invariant forall j int :: 0 <= j && j < len(matches) ==> rswuBasic(matches[j], filter)
//@   loop 1 invariant forall j int :: 0 <= j && j < len(matches) ==> rswuBasic(matches[j], filter)
//@   loop 1 invariant rswuBasic(t, filter)
//@   monitor sorted
//@     before call sort.Slice args x, less : assert typeIs(x, "[]*storage.TupleRecord") && forall j int :: 0 <= j && j < len(as(x, "[]*storage.TupleRecord")) ==> rswuBasic(as(x, "[]*storage.TupleRecord")[j], filter)

// ------------------------------------------------------------------ C19: no-panic sweep (thin, safety-only contracts)
// every index and slice expression of these functions is in range for ALL inputs, with no precondition (generated by
// bin/sweepgen, kept because every obligation discharges; callees without contract are treated as arbitrary)
//@ func (*MemoryBackend).ReadChanges(recv, a0, a1, a2, a3) (r0, r1, r2)
//@   property C19
//@   option nosafety
//@   option safety slice,index

//@ func (*staticIterator).Head(recv, a0) (r0, r1)
//@   property C19
//@   option nosafety
//@   option safety slice,index

//@ func (*staticIterator).Next(recv, a0) (r0, r1)
//@   property C19
//@   option nosafety
//@   option safety slice,index
