//go:build verif

// Contracts for package sqlite, checked by /verif/govc. Comment-only; compiled only under the build tag "verif".
// The meaning of a SQL statement is outside a Go-level verifier: what is proved here is the Go half — which statement
// is built, from which values, and that it is executed on every path that reports success.
package sqlite

// ------------------------------------------------------------------ C31: assertions upsert keyed by (store, model)
// success is reported only if the assertion list was marshalled and the upsert statement was executed (retried on a
// busy database) without error — for every list, the empty one included
//@ func (*Datastore).WriteAssertions(s, ctx, store, modelID, assertions) (err)
//@   property C31
//@   option nosafety
//@   ensures @executed err == nil ==> marshalled && retried && retryErr == nil
//@   monitor upsert
//@     ghost marshalled = false
//@     ghost retried = false
//@     ghost retryErr error = nil
//@     before call proto.Marshal args m : assert typeIs(m, "*openfgav1.Assertions") && as(m, "*openfgav1.Assertions").Assertions == assertions
//@     after call proto.Marshal returning b, e : marshalled = e == nil
//@     before call sqlite.busyRetry args f : assert marshalled && closureOf(f, "WriteAssertions$1") && closureBinds(f, 1, addrOf(store)) && closureBinds(f, 2, addrOf(modelID)) && closureBinds(f, 3, addrOf(marshalledAssertions))
//@     after call sqlite.busyRetry returning e : retried = true ; retryErr = e

// the statement: INSERT INTO assertion (store, authorization_model_id, assertions) VALUES (store, model, blob)
// ON CONFLICT (store, authorization_model_id) DO UPDATE SET assertions = blob, executed once; its error is returned
//@ func (*Datastore).WriteAssertions$1() (err)
//@   property C31
//@   option nosafety
//@   ensures @executed executed && err == execErr
//@   monitor stmt
//@     ghost bIns S_builder.Builder = bIns
//@     ghost bCols S_builder.Builder = bCols
//@     ghost bVals S_builder.Builder = bVals
//@     ghost bSuf S_builder.Builder = bSuf
//@     ghost insOK = false
//@     ghost colsOK = false
//@     ghost valsOK = false
//@     ghost sufOK = false
//@     ghost executed = false
//@     ghost execErr error = nil
//@     after call (squirrel.StatementBuilderType).Insert args _, tbl returning b : bIns = b ; insOK = tbl == "assertion"
//@     before call (squirrel.InsertBuilder).Columns args b, cols : assert insOK && b == bIns && len(cols) == 3 && cols[0] == "store" && cols[1] == "authorization_model_id" && cols[2] == "assertions"
//@     after call (squirrel.InsertBuilder).Columns returning b : bCols = b ; colsOK = true
//@     before call (squirrel.InsertBuilder).Values args b, vals : assert colsOK && b == bCols && len(vals) == 3 && typeIs(vals[0], "string") && as(vals[0], "string") == deref(store) && typeIs(vals[1], "string") && as(vals[1], "string") == deref(modelID) && typeIs(vals[2], "[]byte") && as(vals[2], "[]byte") == deref(marshalledAssertions)
//@     after call (squirrel.InsertBuilder).Values returning b : bVals = b ; valsOK = true
//@     before call (squirrel.InsertBuilder).Suffix args b, sql, sargs : assert valsOK && b == bVals && sql == "ON CONFLICT (store, authorization_model_id) DO UPDATE SET assertions = ?" && len(sargs) == 1 && typeIs(sargs[0], "[]byte") && as(sargs[0], "[]byte") == deref(marshalledAssertions)
//@     after call (squirrel.InsertBuilder).Suffix returning b : bSuf = b ; sufOK = true
//@     before call (squirrel.InsertBuilder).ExecContext args b, c : assert sufOK && b == bSuf
//@     after call (squirrel.InsertBuilder).ExecContext returning r, e : executed = true ; execErr = e

// ------------------------------------------------------------------ error mapping and retry (shared by every write path)
// a failed statement is never reported as success
//@ func HandleSQLError(err, args) (out)
//@   property C31 C12 C16
//@   option nosafety
//@   ensures @neverNil out != nil

// nil is returned only if the last attempt of the operation itself returned nil
//@ func busyRetry(fn) (err)
//@   property C31 C12 C16
//@   option nosafety
//@   ensures @onlyIfSucceeded err == nil ==> called && lastErr == nil
//@   monitor attempts
//@     ghost called = false
//@     ghost lastErr error = nil
//@     after call dynamic returning e : called = true ; lastErr = e

// ------------------------------------------------------------------ C12: the write path's row-lock / existing-row lookup keys
// two tuples of one request share a lock key only if they agree on all of object type, object id, relation, user
// object type, user object id, user relation and user type: the de-duplication string joins exactly these seven
// fields with a separator that occurs in none of them, and the key's fields are the tuple's own parts
//@ func makeTupleLockKeys$1(tk)
//@   property C12
//@   option nosafety
//@   monitor allFields
//@     before call strings.Join args parts, sep : assert sep == "\x00" && len(parts) == 7 && parts[0] == tuple.SplitObject(tk.GetObject()).0 && parts[1] == tuple.SplitObject(tk.GetObject()).1 && parts[2] == tk.GetRelation() && parts[3] == tuple.ToUserParts(tk.GetUser()).0 && parts[4] == tuple.ToUserParts(tk.GetUser()).1 && parts[5] == tuple.ToUserParts(tk.GetUser()).2

// ------------------------------------------------------------------ C14: ListStores paging (Go half)
// the continuation token is the id of the first row NOT returned and the next page asks for id >= token, so the
// statement must be ordered by exactly that column and fetch one row more than the page; a token is returned only
// together with a full page
// ... and only stores that are not soft-deleted are selected, whatever other filters apply (C16)
//@ func (*Datastore).ListStores(s, ctx, options) (res, token, err)
//@   property C14 C16
//@   option nosafety
//@   option defer_neutral
//@   ensures @fullPageWithToken err == nil && token != "" ==> len(res) == options.Pagination.PageSize
//@   ensures @queried err == nil ==> ran
//@   monitor query
//@     ghost ordered = false
//@     ghost limited = false
//@     ghost ran = false
//@     after call (squirrel.SelectBuilder).OrderBy args _, cols : ordered = pre(len(cols) == 1 && cols[0] == "id")
//@     before call (squirrel.StatementBuilderType).Select args _ : assert len(whereClause) >= 1 && typeIs(whereClause[0], "squirrel.Eq") && inDom(as(whereClause[0], "squirrel.Eq"), "deleted_at") && as(whereClause[0], "squirrel.Eq")["deleted_at"] == nil
//@     before call (squirrel.SelectBuilder).Where args _, pred : assert typeIs(pred, "squirrel.And") && as(pred, "squirrel.And") == whereClause
//@     after call (squirrel.SelectBuilder).Limit args _, n : limited = n == options.Pagination.PageSize + 1
//@     before call (squirrel.SelectBuilder).QueryContext : assert ordered && (options.Pagination.PageSize > 0 ==> limited)
//@     after call (squirrel.SelectBuilder).QueryContext : ran = true

// ------------------------------------------------------------------ C13 / C16: ReadStartingWithUser statement (Go half)
// the statement selects this store's tuples of the filter's object type and relation, and the user clause has one
// alternative per user-filter entry: the entry's object type and id, and — when the entry is a userset — its relation
// (an entry without relation constrains type and id only)
//@ func (*Datastore).ReadStartingWithUser(s, ctx, store, filter, opts) (it, err)
//@   property C13 C16
//@   option nosafety
//@   option defer_neutral
//@   monitor statement
//@     ghost wheres int = 0
//@     ghost parts ref = nil
//@     ghost pt string = ""
//@     ghost pi string = ""
//@     after call tuple.ToUserPartsFromObjectRelation args x returning a, b, c : parts = x ; pt = a ; pi = b
//@     before call builtin.append args sl, add : assert len(add) == 1 && typeIs(add[0], "squirrel.Eq") && parts == u && typeIs(as(add[0], "squirrel.Eq")["user_object_type"], "string") && as(as(add[0], "squirrel.Eq")["user_object_type"], "string") == pt && as(as(add[0], "squirrel.Eq")["user_object_id"], "string") == pi && (u.GetRelation() != "" ==> inDom(as(add[0], "squirrel.Eq"), "user_relation") && as(as(add[0], "squirrel.Eq")["user_relation"], "string") == u.GetRelation()) && (u.GetRelation() == "" ==> !inDom(as(add[0], "squirrel.Eq"), "user_relation"))
//@     before call (squirrel.SelectBuilder).Where args _, pred : assert wheres == 0 ==> typeIs(pred, "squirrel.Eq") && as(as(pred, "squirrel.Eq")["store"], "string") == store && typeIs(as(pred, "squirrel.Eq")["store"], "string") && as(as(pred, "squirrel.Eq")["object_type"], "string") == filter.ObjectType && as(as(pred, "squirrel.Eq")["relation"], "string") == filter.Relation
//@     after call (squirrel.SelectBuilder).Where : wheres = wheres + 1

// ------------------------------------------------------------------ C19: no-panic sweep (thin, safety-only contracts)
// every index and slice expression of these functions is in range for ALL inputs, with no precondition (generated by
// bin/sweepgen, kept because every obligation discharges; callees without contract are treated as arbitrary)
//@ func (*Datastore).selectExistingRowsForWrite(recv, a0, a1, a2, a3, a4) (r0)
//@   property C19
//@   option nosafety
//@   option safety slice,index

//@ func PrepareDSN(a0) (r0, r1)
//@   property C19
//@   option nosafety
//@   option safety slice,index

// ------------------------------------------------------------------ C15 / C14 / C16: ReadChanges statement (Go half)
// whatever the type filter, the continuation token and the page size are, the statement executed selects this store's
// changelog rows, carries the horizon predicate (built from the filter's horizon offset by the one Sprintf whose format
// is the "inserted_at <= ..." cut-off), is ordered by ulid in the requested direction, and resumes from the token
// through AddFromUlid with the same direction
//@ func (*Datastore).ReadChanges(s, ctx, store, filter, options) (res, token, err)
//@   property C15 C14 C16
//@   option nosafety
//@   option defer_neutral
//@   ensures @queried err == nil ==> ran
//@   monitor statement
//@     ghost storeScoped = false
//@     ghost hz string = ""
//@     ghost hzOK = false
//@     ghost horizon = false
//@     ghost ordered = false
//@     ghost resumed = false
//@     ghost ran = false
//@     after call fmt.Sprintf args f, a returning r : hz = r ; hzOK = hasPrefix(f, "inserted_at <= datetime(")
//@     after call (squirrel.SelectBuilder).Where args _, pred : storeScoped = storeScoped || pre(typeIs(pred, "squirrel.Eq") && typeIs(as(pred, "squirrel.Eq")["store"], "string") && as(as(pred, "squirrel.Eq")["store"], "string") == store) ; horizon = horizon || (typeIs(pred, "string") && as(pred, "string") == hz && hzOK)
//@     after call (squirrel.SelectBuilder).OrderBy args _, cols : ordered = pre(len(cols) == 1 && cols[0] == (options.SortDesc ? "ulid desc" : "ulid asc"))
//@     before call sqlcommon.AddFromUlid args _, from, desc : assert from == options.Pagination.From && desc == options.SortDesc && from != ""
//@     after call sqlcommon.AddFromUlid : resumed = true
//@     before call (squirrel.SelectBuilder).QueryContext args _ : assert storeScoped && horizon && ordered && (options.Pagination.From != "" ==> resumed)
//@     after call (squirrel.SelectBuilder).QueryContext : ran = true

// ------------------------------------------------------------------ C16: store lookup and deletion (Go half)
// GetStore selects exactly the store with this id that is NOT soft-deleted ("a deleted store is no longer returned by
// GetStore"); DeleteStore marks exactly the store with this id and reports a failed statement
//@ func (*Datastore).GetStore(s, ctx, id) (res, err)
//@   property C16
//@   option nosafety
//@   option defer_neutral
//@   ensures @queried res != nil ==> ran
//@   monitor statement
//@     ghost ran = false
//@     before call (squirrel.SelectBuilder).Where args _, pred : assert typeIs(pred, "squirrel.Eq") && typeIs(as(pred, "squirrel.Eq")["id"], "string") && as(as(pred, "squirrel.Eq")["id"], "string") == id && inDom(as(pred, "squirrel.Eq"), "deleted_at") && as(pred, "squirrel.Eq")["deleted_at"] == nil
//@     after call (squirrel.SelectBuilder).QueryRowContext : ran = true

//@ func (*Datastore).DeleteStore(s, ctx, id) (err)
//@   property C16
//@   option nosafety
//@   option defer_neutral
//@   ensures @executed err == nil ==> ran && execErr == nil
//@   monitor statement
//@     ghost ran = false
//@     ghost execErr error = nil
//@     before call (squirrel.UpdateBuilder).Set args _, col, v : assert col == "deleted_at"
//@     before call (squirrel.UpdateBuilder).Where args _, pred : assert typeIs(pred, "squirrel.Eq") && typeIs(as(pred, "squirrel.Eq")["id"], "string") && as(as(pred, "squirrel.Eq")["id"], "string") == id
//@     after call (squirrel.UpdateBuilder).ExecContext returning r, e : ran = true ; execErr = e

// ------------------------------------------------------------------ C17 / C14 / C16: model reads (Go half)
// a model is looked up by exactly (store, id); the latest model of a store is the first row of this store's models in
// descending id order; the paginated list is this store's models in descending id order ("models newest first"),
// resumed at id <= token, fetching one row more than the page, and a token is returned only with a full page
//@ func (*Datastore).ReadAuthorizationModel(s, ctx, store, modelID) (res, err)
//@   property C17 C16
//@   option nosafety
//@   option defer_neutral
//@   monitor statement
//@     before call (squirrel.SelectBuilder).Where args _, pred : assert typeIs(pred, "squirrel.Eq") && typeIs(as(pred, "squirrel.Eq")["store"], "string") && as(as(pred, "squirrel.Eq")["store"], "string") == store && typeIs(as(pred, "squirrel.Eq")["authorization_model_id"], "string") && as(as(pred, "squirrel.Eq")["authorization_model_id"], "string") == modelID

//@ func (*Datastore).FindLatestAuthorizationModel(s, ctx, store) (res, err)
//@   property C17 C16
//@   option nosafety
//@   option defer_neutral
//@   monitor statement
//@     ghost scoped = false
//@     ghost ordered = false
//@     ghost one = false
//@     after call (squirrel.SelectBuilder).Where args _, pred : scoped = pre(typeIs(pred, "squirrel.Eq") && typeIs(as(pred, "squirrel.Eq")["store"], "string") && as(as(pred, "squirrel.Eq")["store"], "string") == store)
//@     after call (squirrel.SelectBuilder).OrderBy args _, cols : ordered = pre(len(cols) == 1 && cols[0] == "authorization_model_id desc")
//@     after call (squirrel.SelectBuilder).Limit args _, n : one = n == 1
//@     before call (squirrel.SelectBuilder).QueryContext args _ : assert scoped && ordered && one

//@ func (*Datastore).ReadAuthorizationModels(s, ctx, store, options) (res, token, err)
//@   property C14 C16
//@   option nosafety
//@   option defer_neutral
//@   ensures @fullPageWithToken err == nil && token != "" ==> options.Pagination.PageSize > 0 && len(res) >= options.Pagination.PageSize
//@   loop 0 invariant token == "" && (options.Pagination.PageSize > 0 ==> len(models) <= options.Pagination.PageSize)
//@   monitor statement
//@     ghost scoped = false
//@     ghost ordered = false
//@     ghost limited = false
//@     after call (squirrel.SelectBuilder).Where args _, pred : scoped = scoped || pre(typeIs(pred, "squirrel.Eq") && typeIs(as(pred, "squirrel.Eq")["store"], "string") && as(as(pred, "squirrel.Eq")["store"], "string") == store)
//@     after call (squirrel.SelectBuilder).OrderBy args _, cols : ordered = pre(len(cols) == 1 && cols[0] == "authorization_model_id desc")
//@     after call (squirrel.SelectBuilder).Limit args _, n : limited = n == options.Pagination.PageSize + 1
//@     before call (squirrel.SelectBuilder).QueryContext args _ : assert scoped && ordered && (options.Pagination.PageSize > 0 ==> limited)

// ------------------------------------------------------------------ C12: the write transaction (Go half)
// the closures handed to busyRetry return exactly what BeginTx / Commit returned (with busyRetry's contract: a Write
// whose commit closure ran reports the result of its last Commit attempt). A contract for the whole write function
// (success only after a successful Commit) was attempted and not discharged in the time available; it is not claimed.
//@ func (*Datastore).write$3() (err)
//@   property C12
//@   option nosafety
//@   ensures @commitResult called && err == res
//@   monitor commit
//@     ghost called = false
//@     ghost res error = nil
//@     after call (*sql.Tx).Commit returning e : called = true ; res = e

//@ func (*Datastore).write$1() (err)
//@   property C12
//@   option nosafety
//@   ensures @beginResult called && err == res
//@   monitor begin
//@     ghost called = false
//@     ghost res error = nil
//@     after call (*sql.DB).BeginTx returning t, e : called = true ; res = e
