//go:build verif

// Contracts for package mysql, checked by /verif/govc. Comment-only; compiled only under the build tag "verif".
// The meaning of a SQL statement is outside a Go-level verifier: what is proved here is the Go half — which statement
// is built, from which values, and that it is executed on every path that reports success.
package mysql

// ------------------------------------------------------------------ C14: ListStores paging (Go half)
// the continuation token is the id of the first row NOT returned and the next page asks for id >= token, so the
// statement must be ordered by exactly that column and fetch one row more than the page; a token is returned only
// together with a full page
// ... and only stores that are not soft-deleted are selected, whatever other filters apply (C16)
//@ func (*Datastore).ListStores(s, ctx, options) (res, token, err)
//@   property C14 C16
//@   option nosafety
//@   option defer_neutral
//@   ensures @fullPageWithToken err == nil && token != "" ==> len(res) == options.Pagination.PageSize
//@   ensures @queried err == nil ==> ran
//@   monitor query
//@     ghost ordered = false
//@     ghost limited = false
//@     ghost ran = false
//@     after call (squirrel.SelectBuilder).OrderBy args _, cols : ordered = pre(len(cols) == 1 && cols[0] == "id")
//@     before call (squirrel.StatementBuilderType).Select args _ : assert len(whereClause) >= 1 && typeIs(whereClause[0], "squirrel.Eq") && inDom(as(whereClause[0], "squirrel.Eq"), "deleted_at") && as(whereClause[0], "squirrel.Eq")["deleted_at"] == nil
//@     before call (squirrel.SelectBuilder).Where args _, pred : assert typeIs(pred, "squirrel.And") && as(pred, "squirrel.And") == whereClause
//@     after call (squirrel.SelectBuilder).Limit args _, n : limited = n == options.Pagination.PageSize + 1
//@     before call (squirrel.SelectBuilder).QueryContext : assert ordered && (options.Pagination.PageSize > 0 ==> limited)
//@     after call (squirrel.SelectBuilder).QueryContext : ran = true

// a failed statement is never reported as success
//@ func HandleSQLError(err, args) (out)
//@   property C14
//@   option nosafety
//@   ensures @neverNil out != nil

// ------------------------------------------------------------------ C15 / C14 / C16: ReadChanges statement (Go half)
// whatever the type filter, the continuation token and the page size are, the statement executed selects this store's
// changelog rows, carries the horizon predicate (built from the filter's horizon offset by the one Sprintf whose format
// is the "inserted_at <= ..." cut-off), is ordered by ulid in the requested direction, and resumes from the token
// through AddFromUlid with the same direction
//@ func (*Datastore).ReadChanges(s, ctx, store, filter, options) (res, token, err)
//@   property C15 C14 C16
//@   option nosafety
//@   option defer_neutral
//@   ensures @queried err == nil ==> ran
//@   monitor statement
//@     ghost storeScoped = false
//@     ghost hz string = ""
//@     ghost hzOK = false
//@     ghost horizon = false
//@     ghost ordered = false
//@     ghost resumed = false
//@     ghost ran = false
//@     after call fmt.Sprintf args f, a returning r : hz = r ; hzOK = hasPrefix(f, "inserted_at <= NOW() - INTERVAL ")
//@     after call (squirrel.SelectBuilder).Where args _, pred : storeScoped = storeScoped || pre(typeIs(pred, "squirrel.Eq") && typeIs(as(pred, "squirrel.Eq")["store"], "string") && as(as(pred, "squirrel.Eq")["store"], "string") == store) ; horizon = horizon || (typeIs(pred, "string") && as(pred, "string") == hz && hzOK)
//@     after call (squirrel.SelectBuilder).OrderBy args _, cols : ordered = pre(len(cols) == 1 && cols[0] == (options.SortDesc ? "ulid desc" : "ulid asc"))
//@     before call sqlcommon.AddFromUlid args _, from, desc : assert from == options.Pagination.From && desc == options.SortDesc && from != ""
//@     after call sqlcommon.AddFromUlid : resumed = true
//@     before call (squirrel.SelectBuilder).QueryContext args _ : assert storeScoped && horizon && ordered && (options.Pagination.From != "" ==> resumed)
//@     after call (squirrel.SelectBuilder).QueryContext : ran = true

// ------------------------------------------------------------------ C13 / C16: ReadStartingWithUser statement (Go half)
// the statement selects this store's tuples of the filter's object type and relation, and the user clause has one
// alternative per user-filter entry: the entry's object, followed by "#relation" exactly when the entry is a userset
//@ func (*Datastore).ReadStartingWithUser(s, ctx, store, filter, opts) (it, err)
//@   property C13 C16
//@   option nosafety
//@   option defer_neutral
//@   monitor statement
//@     ghost wheres int = 0
//@     before call builtin.append:string args sl, add : assert len(add) == 1 && add[0] == (u.GetRelation() != "" ? u.GetObject() + "#" + u.GetRelation() : u.GetObject())
//@     before call (squirrel.SelectBuilder).Where args _, pred : assert wheres == 0 ==> typeIs(pred, "squirrel.Eq") && typeIs(as(pred, "squirrel.Eq")["store"], "string") && as(as(pred, "squirrel.Eq")["store"], "string") == store && as(as(pred, "squirrel.Eq")["object_type"], "string") == filter.ObjectType && as(as(pred, "squirrel.Eq")["relation"], "string") == filter.Relation && typeIs(as(pred, "squirrel.Eq")["_user"], "[]string") && as(as(pred, "squirrel.Eq")["_user"], "[]string") == targetUsersArg
//@     after call (squirrel.SelectBuilder).Where : wheres = wheres + 1
