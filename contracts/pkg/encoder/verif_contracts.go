//go:build verif

// Contracts for package encoder, checked by /verif/govc. Comment-only; compiled only under the build tag "verif".
package encoder

//@ property C28 C19

//@ func (*StringContinuationTokenSerializer).Serialize(ts, ulid, objType) (token, err)
//@   ensures @empty ulid == "" ==> err != nil && token == nil
//@   ensures @joined ulid != "" ==> err == nil && bytes(token) == ulid + "|" + objType

//@ func (*StringContinuationTokenSerializer).Deserialize(ts, continuationToken) (ulid, objType, err)
//@   ensures @reject index(continuationToken, '|') <= 0 ==> err == storage.ErrInvalidContinuationToken && ulid == "" && objType == ""
//@   ensures @split index(continuationToken, '|') > 0 ==> err == nil && ulid == continuationToken[:index(continuationToken, '|')] && objType == continuationToken[index(continuationToken, '|')+1:]
//@   pure

//@ lemma serializer_roundtrip(ts *StringContinuationTokenSerializer, u string, t string)
//@   requires u != "" && !containsByte(u, '|')
//@   let tok, err = (*StringContinuationTokenSerializer).Serialize(ts, u, t)
//@   let u2, t2, err2 = (*StringContinuationTokenSerializer).Deserialize(ts, bytes(tok))
//@   ensures err == nil && err2 == nil && u2 == u && t2 == t

//@ func (*Base64Encoder).Decode(e, s) (out, err)
//@   pure
//@   refines Encoder.Decode
//@   ensures err == nil <==> b64ok(base64.URLEncoding, s)
//@   ensures err == nil ==> bytes(out) == b64dec(base64.URLEncoding, s)

//@ func (*Base64Encoder).Encode(e, data) (s, err)
//@   pure
//@   refines Encoder.Encode
//@   ensures err == nil && b64ok(base64.URLEncoding, s) && b64dec(base64.URLEncoding, s) == bytes(data)

//@ func (NoopEncoder).Decode(e, s) (out, err)
//@   modifies nothing
//@   refines Encoder.Decode
//@   ensures err == nil && bytes(out) == s

//@ func (NoopEncoder).Encode(e, data) (s, err)
//@   pure
//@   refines Encoder.Encode
//@   ensures err == nil && s == bytes(data)

//@ func (*TokenEncoder).Decode(e, s) (out, err)
//@   requires e != nil && e.encoder != nil && e.encrypter != nil
//@   modifies nothing
//@   ensures @undecodable !decOk(e.encoder, s) ==> err != nil && len(out) == 0
//@   ensures @decrypts decOk(e.encoder, s) ==> forall p string :: encR(e.encrypter, p, decF(e.encoder, s)) ==> err == nil && bytes(out) == p
//@   ensures @failClosed err != nil ==> len(out) == 0
//@   monitor decodeBeforeDecrypt
//@     ghost decoded = false
//@     after call encoder.Encoder.Decode returning derr : decoded = derr == nil
//@     before call encrypter.Encrypter.Decrypt : assert decoded

//@ func (*TokenEncoder).Encode(e, data) (s, err)
//@   requires e != nil && e.encoder != nil && e.encrypter != nil
//@   modifies nothing
//@   ensures @invertible err == nil ==> decOk(e.encoder, s) && encR(e.encrypter, old(bytes(data)), decF(e.encoder, s))

//@ lemma token_roundtrip(e *TokenEncoder, d []byte)
//@   requires e != nil && e.encoder != nil && e.encrypter != nil
//@   let s, err = (*TokenEncoder).Encode(e, d)
//@   let p, err2 = (*TokenEncoder).Decode(e, s)
//@   ensures err == nil ==> err2 == nil && bytes(p) == old(bytes(d))
