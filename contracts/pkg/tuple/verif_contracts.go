//go:build verif

// Contracts for package tuple, checked by /verif/govc (contract-based deductive verification).
// This file is comment-only; it is compiled only under the build tag "verif".
package tuple

//@ property C29 C19

//@ spec objPart(s string) string = lastIndex(s, '#') == -1 ? s : s[:lastIndex(s, '#')]
//@ spec relPart(s string) string = lastIndex(s, '#') == -1 ? "" : s[lastIndex(s, '#')+1:]
//@ spec typePart(o string) string = index(o, ':') == -1 ? "" : o[:index(o, ':')]
//@ spec idPart(o string) string = index(o, ':') == -1 ? o : o[index(o, ':')+1:]
//@ spec noSep(s string) bool = !containsByte(s, ':') && !containsByte(s, '#')

// byte classes of the documented grammar: no '#', no space, no ASCII control character
//@ spec okObjByte(c int) bool = c != '#' && c != ' ' && c >= 32 && c != 127
//@ spec okRelByte(c int) bool = c != '#' && c != ':' && c != '@' && c != ' ' && c >= 32 && c != 127
//@ spec okIDByte(c int) bool = c != '#' && c != ':' && c != ' ' && c >= 32 && c != 127
//@ spec isASCII(s string) bool = forall j :: 0 <= j && j < len(s) ==> s[j] < 128
//@ spec objectShape(s string) bool = index(s, ':') > 0 && index(s, ':') < len(s)-1 && (forall j :: index(s, ':') < j && j < len(s) ==> s[j] != ':') && (forall j :: 0 <= j && j < len(s) ==> okObjByte(s[j]))
//@ spec relationShape(s string) bool = len(s) > 0 && (forall j :: 0 <= j && j < len(s) ==> okRelByte(s[j]))
//@ spec userIDShape(s string) bool = len(s) > 0 && (forall j :: 0 <= j && j < len(s) ==> okIDByte(s[j]))

//@ func SplitObject(object) (t, id)
//@   ensures @type t == typePart(object)
//@   ensures @id id == idPart(object)
//@   ensures @rejoin  index(object, ':') >= 0 ==> t + ":" + id == object
//@   ensures @tNoColon !containsByte(t, ':')
//@   pure

//@ func BuildObject(objectType, objectID) (o)
//@   ensures o == objectType + ":" + objectID
//@   pure

//@ func SplitObjectRelation(objectRelation) (o, r)
//@   ensures @obj lastIndex(objectRelation, '#') != len(objectRelation)-1 || len(objectRelation) == 0 ==> o == objPart(objectRelation)
//@   ensures @rel r == relPart(objectRelation)
//@   ensures @last lastIndex(objectRelation, '#') == len(objectRelation)-1 && len(objectRelation) > 0 ==> o == objectRelation[:len(objectRelation)-1] && r == ""
//@   ensures @objAlways o == objPart(objectRelation)
//@   ensures @relNoHash !containsByte(r, '#')
//@   pure

//@ func ToObjectRelationString(object, relation) (s)
//@   ensures s == object + "#" + relation
//@   pure

//@ func GetType(objectID) (t)
//@   ensures t == typePart(objectID)
//@   pure

//@ func GetRelation(objectRelation) (r)
//@   ensures r == relPart(objectRelation)
//@   pure

//@ func ToUserParts(user) (t, id, rel)
//@   ensures @rel rel == relPart(user)
//@   ensures @type t == typePart(objPart(user))
//@   ensures @id id == idPart(objPart(user))
//@   pure

//@ func FromUserParts(userObjectType, userObjectID, userRelation) (u)
//@   ensures u == (userObjectType != "" ? userObjectType + ":" : "") + userObjectID + (userRelation != "" ? "#" + userRelation : "")

//@ func IsTypedWildcard(s) (b)
//@   ensures b <==> (index(s, ':') > 0 && s[index(s, ':')+1:] == "*")
//@   pure

//@ func IsWildcard(s) (b)
//@   ensures b <==> (s == "*" || (index(s, ':') > 0 && s[index(s, ':')+1:] == "*"))
//@   pure

//@ func TypedPublicWildcard(objectType) (s)
//@   ensures s == objectType + ":*"
//@   pure

//@ func UsersetMatchTypeAndRelation(userset, relation, typee) (b)
//@   ensures b <==> (relation == relPart(userset) && typee == typePart(objPart(userset)))
//@   pure

//@ func IsValidObject(s) (ok)
//@   loop 0 invariant state == 0 || state == 1
//@   loop 0 invariant @bytes forall j :: 0 <= j && j < $pos ==> okObjByte(s[j])
//@   loop 0 invariant @st0 state == 0 ==> idLen == 0 && (forall j :: 0 <= j && j < $pos ==> s[j] != ':')
//@   loop 0 invariant @st1 state == 1 ==> 0 < index(s, ':') && index(s, ':') < $pos && (forall j :: index(s, ':') < j && j < $pos ==> s[j] != ':') && idLen >= 0 && (idLen > 0 <==> $pos > index(s, ':')+1)
//@   ensures @sound ok ==> objectShape(s)
//@   ensures @asciiComplete isASCII(s) && objectShape(s) ==> ok
//@   ensures @noHash ok ==> index(s, '#') == -1
//@   pure

//@ func IsValidRelation(s) (ok)
//@   loop 0 invariant @bytes forall j :: 0 <= j && j < $pos ==> okRelByte(s[j])
//@   loop 0 invariant @count count >= 0 && (count > 0 <==> $pos > 0)
//@   ensures @sound ok ==> relationShape(s)
//@   ensures @asciiComplete isASCII(s) && relationShape(s) ==> ok
//@   ensures @noSeparators ok ==> index(s, '#') == -1 && index(s, '@') == -1 && index(s, ':') == -1
//@   pure

//@ func IsValidUserID(s) (ok)
//@   loop 0 invariant @bytes forall j :: 0 <= j && j < $pos ==> okIDByte(s[j])
//@   loop 0 invariant @count count >= 0 && (count > 0 <==> $pos > 0)
//@   ensures @sound ok ==> userIDShape(s)
//@   ensures @asciiComplete isASCII(s) && userIDShape(s) ==> ok
//@   pure


// IsValidUserset: the loop-based predicate is used as an opaque deterministic predicate by other contracts; its
// grammar post (type ':' id '#' relation, no spaces / control characters, no '*' after the type) is C29 work in progress.
//@ func IsValidUserset(s) (ok)
//@   loop 0 invariant @bytes forall j :: 0 <= j && j < $pos ==> s[j] != ' ' && s[j] >= 32 && s[j] != 127
//@   ensures @sound ok ==> (forall j :: 0 <= j && j < len(s) ==> s[j] != ' ' && s[j] >= 32 && s[j] != 127)
//@   pure

//@ func IsObjectRelation(userset) (ok)
//@   ensures ok == IsValidUserset(userset)
//@   pure

//@ func IsValidUser(user) (ok)
//@   ensures ok <==> (user == "*" || IsValidUserID(user) || IsValidObject(user) || IsValidUserset(user))
//@   pure


// ---- tuple string form: object '#' relation '@' user
//@ func (*Tuple).String(t) (s)
//@   option nosafety
//@   modifies nothing
//@   ensures s == t.GetObject() + "#" + t.GetRelation() + "@" + t.GetUser()

//@ func ParseTupleString(s) (tk, err)
//@   option nosafety
//@   modifies nothing
//@   ensures @noHash index(s, '#') == -1 ==> err != nil && tk == nil
//@   ensures @noAt index(s, '#') >= 0 && index(s[index(s, '#')+1:], '@') == -1 ==> err != nil && tk == nil
//@   ensures @fields err == nil ==> tk != nil && tk.Object == s[:index(s, '#')] && tk.Relation == s[index(s, '#')+1:][:index(s[index(s, '#')+1:], '@')] && tk.User == s[index(s, '#')+1:][index(s[index(s, '#')+1:], '@')+1:] && tk.Condition == nil
//@   ensures @validParts err == nil ==> IsValidObject(tk.Object) && IsValidRelation(tk.Relation) && IsValidUser(tk.User)
//@   ensures @accepts index(s, '#') >= 0 && index(s[index(s, '#')+1:], '@') >= 0 && IsValidObject(s[:index(s, '#')]) && IsValidRelation(s[index(s, '#')+1:][:index(s[index(s, '#')+1:], '@')]) && IsValidUser(s[index(s, '#')+1:][index(s[index(s, '#')+1:], '@')+1:]) ==> err == nil

// rendering a valid tuple and parsing it back yields the original (the user may contain '@': the FIRST '@' after the relation separates)
//@ lemma tuple_string_roundtrip(t *Tuple)
//@   requires t != nil && IsValidObject(t.GetObject()) && IsValidRelation(t.GetRelation()) && IsValidUser(t.GetUser())
//@   let s = (*Tuple).String(t)
//@   let tk, err = ParseTupleString(s)
//@   ensures err == nil && tk.Object == t.GetObject() && tk.Relation == t.GetRelation() && tk.User == t.GetUser()

//@ lemma split_build(t string, id string)
//@   requires !containsByte(t, ':')
//@   let o = BuildObject(t, id)
//@   let a, b = SplitObject(o)
//@   ensures a == t && b == id

//@ lemma build_split(o string)
//@   requires containsByte(o, ':')
//@   let a, b = SplitObject(o)
//@   let o2 = BuildObject(a, b)
//@   ensures o2 == o

//@ lemma splitrel_build(o string, r string)
//@   requires !containsByte(r, '#') && r != ""
//@   let s = ToObjectRelationString(o, r)
//@   let a, b = SplitObjectRelation(s)
//@   ensures a == o && b == r

//@ lemma userparts_rt(t string, id string, rel string)
//@   requires t != "" && noSep(t) && noSep(id) && !containsByte(rel, '#')
//@   let u = FromUserParts(t, id, rel)
//@   let a, b, c = ToUserParts(u)
//@   ensures a == t && b == id && c == rel
