//go:build verif

// Contracts for package validation, checked by /verif/govc. Comment-only; compiled only under the build tag "verif".
package validation

//@ property C18

// the type restrictions the model declares for (object type, relation)
//@ spec restrOf(ts ref, ot string, rel string) slice = ts.GetTypeDefinition(ot).0.GetMetadata().GetRelations()[rel].GetDirectlyRelatedUserTypes()
// "its user matches one of the relation's type restrictions (object type, type wildcard or userset)"
//@ spec userTypeOf(user string) string = tuple.SplitObject(tuple.SplitObjectRelation(user).0).0
//@ spec userRelOf(user string) string = tuple.SplitObjectRelation(user).1
//@ spec fitsUserset(r ref, user string) bool = r.GetType() == userTypeOf(user) && r.GetRelation() == userRelOf(user)
//@ spec fitsWildcard(r ref, user string) bool = r.GetType() == userTypeOf(user) && r.GetWildcard() != nil
//@ spec fitsObject(r ref, user string) bool = r.GetType() == userTypeOf(user) && r.GetWildcard() == nil && r.GetRelation() == ""
//@ spec fits(r ref, user string) bool = tuple.IsObjectRelation(user) ? fitsUserset(r, user) : (tuple.IsTypedWildcard(user) ? fitsWildcard(r, user) : fitsObject(r, user))

//@ func validateTypeRestrictions(typesys, tk) (err)
//@   option nosafety
//@   modifies nothing
//@   loop 0 invariant forall j :: 0 <= j && j <= $idx ==> !fits(restrOf(typesys, tuple.GetType(tk.GetObject()), tk.GetRelation())[j], tk.GetUser())
//@   loop 1 invariant forall j :: 0 <= j && j <= $idx ==> !fits(restrOf(typesys, tuple.GetType(tk.GetObject()), tk.GetRelation())[j], tk.GetUser())
//@   loop 2 invariant forall j :: 0 <= j && j <= $idx ==> !fits(restrOf(typesys, tuple.GetType(tk.GetObject()), tk.GetRelation())[j], tk.GetUser())
//@   ensures @typeMissing !typesys.GetTypeDefinition(tuple.GetType(tk.GetObject())).1 ==> err != nil
//@   ensures @accepts typesys.GetTypeDefinition(tuple.GetType(tk.GetObject())).1 && err == nil ==> exists i :: 0 <= i && i < len(restrOf(typesys, tuple.GetType(tk.GetObject()), tk.GetRelation())) && fits(restrOf(typesys, tuple.GetType(tk.GetObject()), tk.GetRelation())[i], tk.GetUser())
//@   ensures @rejects typesys.GetTypeDefinition(tuple.GetType(tk.GetObject())).1 && err != nil ==> forall i :: 0 <= i && i < len(restrOf(typesys, tuple.GetType(tk.GetObject()), tk.GetRelation())) ==> !fits(restrOf(typesys, tuple.GetType(tk.GetObject()), tk.GetRelation())[i], tk.GetUser())

// restrictions as validateCondition sees them (through the typesystem's relation map)
//@ spec restrC(ts ref, tk ref) slice = restrictionsOf(ts, tuple.GetType(tk.GetObject()), tk.GetRelation())
//@ spec relDefinedFor(ts ref, tk ref) bool = relationDefined(ts, tuple.GetType(tk.GetObject()), tk.GetRelation())

// "its condition is one the matching restriction allows": an unconditioned tuple needs a fitting restriction without a
// condition; a conditioned tuple needs a fitting restriction that carries that condition.
//@ func typeRestrictionFitsUser(typeRestriction, user) (b)
//@   option nosafety
//@   modifies nothing
//@   ensures b == fits(typeRestriction, user)

//@ func validateCondition(typesys, tk) (err)
//@   option nosafety
//@   loop 0 invariant forall j :: 0 <= j && j <= $idx ==> !(restrC(typesys, tk)[j].GetCondition() == "" && fits(restrC(typesys, tk)[j], tk.GetUser()))
//@   loop 1 invariant forall j :: 0 <= j && j <= $idx ==> !(restrC(typesys, tk)[j].GetCondition() == tk.GetCondition().GetName() && fits(restrC(typesys, tk)[j], tk.GetUser()))
//@   ensures @undefinedRelation old(!relDefinedFor(typesys, tk)) ==> err != nil
//@   ensures @uncondAccept old(relDefinedFor(typesys, tk) && tk.GetCondition() == nil) && err == nil ==> old(exists i :: 0 <= i && i < len(restrC(typesys, tk)) && restrC(typesys, tk)[i].GetCondition() == "" && fits(restrC(typesys, tk)[i], tk.GetUser()))
//@   ensures @uncondReject old(relDefinedFor(typesys, tk) && tk.GetCondition() == nil) && err != nil ==> old(forall i :: 0 <= i && i < len(restrC(typesys, tk)) ==> !(restrC(typesys, tk)[i].GetCondition() == "" && fits(restrC(typesys, tk)[i], tk.GetUser())))
//@   ensures @condAccept old(relDefinedFor(typesys, tk) && tk.GetCondition() != nil) && err == nil ==> old(exists i :: 0 <= i && i < len(restrC(typesys, tk)) && restrC(typesys, tk)[i].GetCondition() == tk.GetCondition().GetName() && fits(restrC(typesys, tk)[i], tk.GetUser()))

// "tupleset relations receive only concrete objects"
//@ func validateTuplesetRestrictions(typesys, tk) (err)
//@   option nosafety
//@   option stable tk
//@   ensures @concreteOnly err == nil ==> tsErr == nil && (!isTupleset || (!tuple.IsWildcard(tk.GetUser()) && tuple.IsValidObject(tk.GetUser())))
//@   monitor tuplesetLookup
//@     ghost isTupleset = false
//@     ghost tsErr error = nil
//@     after call (*typesystem.TypeSystem).IsTuplesetRelation returning b, e : isTupleset = b ; tsErr = e

// composition: a tuple passes only if every validator passed
//@ func ValidateTupleForRead(typesys, tk) (err)
//@   option nosafety
//@   ensures @allPassed err == nil ==> tuplesetOK && infoErr == nil && (hasInfo ==> restrOK && condOK)
//@   monitor validators
//@     ghost tuplesetOK = false
//@     ghost hasInfo = false
//@     ghost infoErr error = nil
//@     ghost restrOK = false
//@     ghost condOK = false
//@     after call validation.validateTuplesetRestrictions args ts, t returning e : tuplesetOK = e == nil && ts == typesys && t == tk
//@     after call (*typesystem.TypeSystem).HasTypeInfo returning b, e : hasInfo = b ; infoErr = e
//@     after call validation.validateTypeRestrictions args ts, t returning e : restrOK = e == nil && ts == typesys && t == tk
//@     after call validation.validateCondition args ts, t returning e : condOK = e == nil && ts == typesys && t == tk

//@ func ValidateTupleForWrite(typesys, tk) (err)
//@   option nosafety
//@   ensures @allPassed err == nil ==> shapeOK && readOK
//@   monitor validators
//@     ghost shapeOK = false
//@     ghost readOK = false
//@     after call validation.ValidateUserObjectRelation args ts, t returning e : shapeOK = e == nil && ts == typesys && t == tk
//@     after call validation.ValidateTupleForRead args ts, t returning e : readOK = e == nil && ts == typesys && t == tk

//@ func ValidateUserObjectRelation(typesys, tk) (err)
//@   option nosafety
//@   ensures @allPassed err == nil ==> userOK && objectOK && relationOK
//@   monitor validators
//@     ghost userOK = false
//@     ghost objectOK = false
//@     ghost relationOK = false
//@     after call validation.ValidateUser args ts, u returning e : userOK = e == nil && ts == typesys
//@     after call validation.ValidateObject args ts, t returning e : objectOK = e == nil && ts == typesys && t == tk
//@     after call validation.ValidateRelation args ts, t returning e : relationOK = e == nil && ts == typesys && t == tk

// "its object type and relation exist" + documented grammar
//@ func ValidateObject(typesys, tk) (err)
//@   option nosafety
//@   ensures @shape err == nil ==> old(tuple.IsValidObject(tk.GetObject()) && tuple.SplitObject(tk.GetObject()).1 != "*" && typeDefined(typesys, tuple.SplitObject(tk.GetObject()).0))

//@ func ValidateRelation(typesys, tk) (err)
//@   option nosafety
//@   ensures @shape err == nil ==> old(tuple.IsValidRelation(tk.GetRelation()) && relationDefined(typesys, tuple.GetType(tk.GetObject()), tk.GetRelation()))
