//go:build verif

// Contracts for package graph, checked by /verif/govc. Comment-only; compiled only under the build tag "verif".
package graph

// C10: HIGHER_CONSISTENCY bypasses the query cache. C11: a cached response is served only if it was stored strictly
// after the last invalidation time carried by the request. C08: only cycle-free, error-free results are stored, under
// the key built from this request.
//@ func (*CachedCheckResolver).ResolveCheck(c, ctx, req) (res, err)
//@   property C10 C11 C08
//@   option nosafety
//@   option stable req
//@   requires c != nil && req != nil && c.delegate != nil && c.cache != nil
//@   ensures @higherBypass old(req.Consistency) == openfgav1.ConsistencyPreference_HIGHER_CONSISTENCY ==> innerCalled && innerReq == req && err == innerErr && (innerErr == nil ==> res == innerRes)
//@   ensures @servedOnlyIfValid !innerCalled && err == nil ==> looked && typeIs(cached, "*graph.CheckResponseCacheEntry") && ts(as(cached, "*graph.CheckResponseCacheEntry").LastModified) > ts(req.LastCacheInvalidationTime)
//@   ensures @missDelegates innerCalled ==> err == innerErr && (innerErr == nil ==> res == innerRes)
//@   monitor noCacheOnHigher
//@     ghost innerCalled = false
//@     ghost innerRes *graph.ResolveCheckResponse = nil
//@     ghost innerErr error = nil
//@     ghost innerReq ref = nil
//@     ghost looked = false
//@     ghost cached iface = nil
//@     ghost builtKey S_keys.Key = builtKey
//@     ghost keyOK = false
//@     after call storage.CheckCacheKey args a, b, c2, d, e returning k : builtKey = k ; keyOK = a == req.GetStoreID() && b == req.GetTupleKey().GetObject() && c2 == req.GetTupleKey().GetRelation() && d == req.GetTupleKey().GetUser() && e == req.GetInvariantCacheKey()
//@     after call graph.CheckResolver.ResolveCheck args _, _, a_req returning r, e : innerCalled = true ; innerRes = r ; innerErr = e ; innerReq = a_req
//@     before call storage.InMemoryCache.Get args _, k : assert req.Consistency != openfgav1.ConsistencyPreference_HIGHER_CONSISTENCY && keyOK && k == builtKey
//@     after call storage.InMemoryCache.Get args _, k returning v : looked = true ; cached = v
//@     before call storage.InMemoryCache.Set args _, k, v, ttl : assert innerCalled && innerErr == nil && !innerRes.GetCycleDetected() && keyOK && k == builtKey

// every answer-relevant field of a request survives cloning (sub-problem requests carry the parent's consistency,
// invalidation time, context, contextual tuples, model and store)
//@ func (*ResolveCheckRequest).clone(r) (res)
//@   property C11 C10 C08
//@   option nosafety
//@   modifies nothing
//@   requires r != nil
//@   ensures @fields res != nil && res.StoreID == r.StoreID && res.AuthorizationModelID == r.AuthorizationModelID && res.ContextualTuples == r.ContextualTuples && res.Context == r.Context && res.Consistency == r.Consistency && res.LastCacheInvalidationTime == r.LastCacheInvalidationTime && res.invariantCacheKey == r.invariantCacheKey && res.objectType == r.objectType && res.userType == r.userType
