//go:build verif

// Contracts for package graph, checked by /verif/govc. Comment-only; compiled only under the build tag "verif".
package graph

// C10: HIGHER_CONSISTENCY bypasses the query cache. C11: a cached response is served only if it was stored strictly
// after the last invalidation time carried by the request. C08: only cycle-free, error-free results are stored, under
// the key built from this request.
//@ func (*CachedCheckResolver).ResolveCheck(c, ctx, req) (res, err)
//@   property C10 C11 C08
//@   option nosafety
//@   option stable req
//@   requires c != nil && req != nil && c.delegate != nil && c.cache != nil
//@   ensures @higherBypass old(req.Consistency) == openfgav1.ConsistencyPreference_HIGHER_CONSISTENCY ==> innerCalled && innerReq == req && err == innerErr && (innerErr == nil ==> res == innerRes)
//@   ensures @servedOnlyIfValid !innerCalled && err == nil ==> looked && typeIs(cached, "*graph.CheckResponseCacheEntry") && ts(as(cached, "*graph.CheckResponseCacheEntry").LastModified) > ts(req.LastCacheInvalidationTime)
//@   ensures @missDelegates innerCalled ==> err == innerErr && (innerErr == nil ==> res == innerRes)
//@   monitor noCacheOnHigher
//@     ghost innerCalled = false
//@     ghost innerRes *graph.ResolveCheckResponse = nil
//@     ghost innerErr error = nil
//@     ghost innerReq ref = nil
//@     ghost looked = false
//@     ghost cached iface = nil
//@     ghost builtKey S_keys.Key = builtKey
//@     ghost keyOK = false
//@     after call storage.CheckCacheKey args a, b, c2, d, e returning k : builtKey = k ; keyOK = a == req.GetStoreID() && b == req.GetTupleKey().GetObject() && c2 == req.GetTupleKey().GetRelation() && d == req.GetTupleKey().GetUser() && e == req.GetInvariantCacheKey()
//@     after call graph.CheckResolver.ResolveCheck args _, _, a_req returning r, e : innerCalled = true ; innerRes = r ; innerErr = e ; innerReq = a_req
//@     before call storage.InMemoryCache.Get args _, k : assert req.Consistency != openfgav1.ConsistencyPreference_HIGHER_CONSISTENCY && keyOK && k == builtKey
//@     after call storage.InMemoryCache.Get args _, k returning v : looked = true ; cached = v
//@     before call storage.InMemoryCache.Set args _, k, v, ttl : assert innerCalled && innerErr == nil && !innerRes.GetCycleDetected() && keyOK && k == builtKey

// every answer-relevant field of a request survives cloning (sub-problem requests carry the parent's consistency,
// invalidation time, context, contextual tuples, model and store)
//@ func (*ResolveCheckRequest).clone(r) (res)
//@   property C11 C10 C08
//@   option nosafety
//@   modifies nothing
//@   requires r != nil
//@   ensures @fields res != nil && res.StoreID == r.StoreID && res.AuthorizationModelID == r.AuthorizationModelID && res.ContextualTuples == r.ContextualTuples && res.Context == r.Context && res.Consistency == r.Consistency && res.LastCacheInvalidationTime == r.LastCacheInvalidationTime && res.invariantCacheKey == r.invariantCacheKey && res.objectType == r.objectType && res.userType == r.userType

// ------------------------------------------------------------------ C01 / C10: the direct-assignment leaves of the default engine
// direct tuple lookup: the store is asked for exactly (object, relation, user) of the request in the request's store
// with the request's consistency; allowed=true only if the tuple was found, passed validation against the model in
// use (a stored tuple that is not valid for the model is ignored) and its condition evaluated to true without error;
// an evaluation error fails the handler (never allowed=true)
//@ func (*LocalChecker).checkDirectUserTuple$1(ctx) (res, err)
//@   property C01 C10
//@   option nosafety
//@   option defer_neutral
//@   ensures @onlyValidSatisfied res != nil && res.Allowed ==> err == nil && read && readErr == nil && validated && valErr == nil && condChecked && condErr == nil && condMet
//@   ensures @errorNeverAllows err != nil ==> res == nil
//@   monitor leaf
//@     ghost read = false
//@     ghost got *openfgav1.Tuple = nil
//@     ghost readErr error = nil
//@     ghost validated = false
//@     ghost valErr error = nil
//@     ghost valKey *openfgav1.TupleKey = nil
//@     ghost condChecked = false
//@     ghost condMet = false
//@     ghost condErr error = nil
//@     before call storage.RelationshipTupleReader.ReadUserTuple args _, _, st, f, o : assert st == deref(req).GetStoreID() && f.Object == deref(reqTupleKey).GetObject() && f.Relation == deref(reqTupleKey).GetRelation() && f.User == deref(reqTupleKey).GetUser() && o.Consistency.Preference == deref(req).GetConsistency()
//@     after call storage.RelationshipTupleReader.ReadUserTuple returning t, e : read = true ; got = t ; readErr = e
//@     before call validation.ValidateTupleForRead args ts, k : assert read && ts == deref(typesys) && k == got.GetKey()
//@     after call validation.ValidateTupleForRead args ts, k returning e : validated = true ; valErr = e ; valKey = k
//@     before call checkutil.BuildTupleKeyConditionFilter args _, c, ts : assert c == deref(req).Context && ts == deref(typesys)
//@     before call dynamic args k : assert validated && valErr == nil && k == valKey
//@     after call dynamic returning m, e : condChecked = true ; condMet = m ; condErr = e

// public (typed wildcard) assignment: the store is asked for the userset tuples of exactly the request's object and
// relation restricted to the wildcard of the user's type, with the request's consistency; invalid tuples are filtered
// by the model in use and conditions by the request context; allowed=true only if that filtered sequence yields a tuple
//@ func (*LocalChecker).checkPublicAssignable$1(ctx) (res, err)
//@   property C01 C10 C20
//@   option monitor_props release=C20
//@   ensures @iteratorReleased opened ==> released
//@   monitor release
//@     ghost cur iface = nil
//@     ghost opened = false
//@     ghost released = false
//@     after call storage.RelationshipTupleReader.ReadUsersetTuples returning it, e : opened = e == nil ; cur = it ; released = false
//@     after call storage.NewTupleKeyIteratorFromTupleIterator args x returning r : cur = (x == cur ? r : cur)
//@     after call storage.NewFilteredTupleKeyIterator args x, f returning r : cur = (x == cur ? r : cur)
//@     after call storage.NewConditionsFilteredTupleKeyIterator args x, f returning r : cur = (x == cur ? r : cur)
//@     after call defer:storage.Iterator.Stop | defer:storage.TupleKeyIterator.Stop | defer:storage.TupleIterator.Stop args recv : released = released || recv == cur
//@   option nosafety
//@   option defer_neutral
//@   ensures @onlyIfYielded res != nil && res.Allowed ==> err == nil && nexted && nextErr == nil
//@   ensures @errorNeverAllows err != nil ==> res == nil
//@   monitor leaf
//@     ghost readIt iface = nil
//@     ghost keyIt iface = nil
//@     ghost validFilter ref = nil
//@     ghost filterMade = false
//@     ghost validIt iface = nil
//@     ghost condFilter ref = nil
//@     ghost condMade = false
//@     ghost nexted = false
//@     ghost nextErr error = nil
//@     before call storage.RelationshipTupleReader.ReadUsersetTuples args _, _, st, f, o : assert st == deref(storeID) && f.Object == deref(reqTupleKey).GetObject() && f.Relation == deref(reqTupleKey).GetRelation() && len(f.AllowedUserTypeRestrictions) == 1 && f.AllowedUserTypeRestrictions[0] == deref(wildcardRelationReference) && o.Consistency.Preference == deref(req).GetConsistency()
//@     after call storage.RelationshipTupleReader.ReadUsersetTuples returning it, e : readIt = it
//@     before call storage.NewTupleKeyIteratorFromTupleIterator args it : assert it == readIt
//@     after call storage.NewTupleKeyIteratorFromTupleIterator returning k : keyIt = k
//@     before call validation.FilterInvalidTuples args ts : assert ts == deref(typesys)
//@     after call validation.FilterInvalidTuples returning f : validFilter = f ; filterMade = true
//@     before call storage.NewFilteredTupleKeyIterator args it, f : assert it == keyIt && filterMade && f == validFilter
//@     after call storage.NewFilteredTupleKeyIterator returning it : validIt = it
//@     before call checkutil.BuildTupleKeyConditionFilter args _, c, ts : assert c == deref(req).GetContext() && ts == deref(typesys)
//@     after call checkutil.BuildTupleKeyConditionFilter returning f : condFilter = f ; condMade = true
//@     before call storage.NewConditionsFilteredTupleKeyIterator args it, f : assert it == validIt && condMade && f == condFilter
//@     after call storage.TupleKeyIterator.Next returning k, e : nexted = true ; nextErr = e

// ------------------------------------------------------------------ C01 / C08: the reducers (proved over the channel abstraction:
// a receive yields an arbitrary outcome, so the statements are about what the reducer does with whatever it receives)
// union: the answer is either an operand's own allowed response, or the reducer's fresh "not allowed" response; an
// operand error is never turned into a definite answer (it fails the request unless another operand allowed)
//@ func union(ctx, concurrencyLimit, handlers) (resp, err)
//@   property C01
//@   option nosafety
//@   option defer_neutral
//@   loop 1 invariant finalResult != nil && fresh(finalResult) && !finalResult.Allowed
//@   ensures @allowedIsOperands err == nil && resp != nil && resp.Allowed ==> resp != finalResult && resp == outcome.resp && outcome.err == nil
//@   ensures @deniedIsFresh err == nil && resp != nil && !resp.Allowed ==> resp == finalResult && finalErr == nil
//@   ensures @errorNoAnswer err != nil ==> resp == nil

// intersection: true only from the reducer's own response after the loop ended without a recorded error; a definite
// false (or cycle) from any operand decides immediately; fewer than two operands is an error
//@ func intersection(ctx, concurrencyLimit, handlers) (resp, err)
//@   property C01
//@   option nosafety
//@   option defer_neutral
//@   loop 1 invariant finalResult != nil && fresh(finalResult) && finalResult.Allowed
//@   ensures @arity len(handlers) < 2 ==> err != nil && resp == nil
//@   ensures @trueOnlyWithoutError err == nil && resp != nil && resp.Allowed ==> resp == finalResult && finalErr == nil
//@   ensures @falseFromOperand err == nil && resp != nil && !resp.Allowed ==> resp == finalResult && outcome.err == nil && (outcome.resp.GetResolutionMetadata().CycleDetected || !outcome.resp.Allowed)
//@   ensures @errorNoAnswer err != nil ==> resp == nil

// exclusion: true only after both operands answered without error (base allowed, subtract not); a base that is false /
// cyclic or a subtract that is true / cyclic decides false immediately; otherwise the base error, then the subtract error
//@ func exclusion(ctx, _, handlers) (resp, err)
//@   property C01
//@   option nosafety
//@   option defer_neutral
//@   ensures @arity len(handlers) != 2 ==> err != nil && resp == nil
//@   ensures @trueNeedsBoth err == nil && resp != nil && resp.Allowed ==> baseErr == nil && subErr == nil && resultsReceived >= 2
//@   ensures @errorNoAnswer err != nil ==> resp == nil

// aggregation of dispatched userset / TTU children: as union, plus the cycle flag of any consumed child sticks to a
// "not allowed" answer (such an answer must not be cached: C08) and an upstream cancellation is an error, never a decision
//@ func (*LocalChecker).consumeDispatches(c, ctx, limit, dispatchChan) (resp, err)
//@   property C01 C08
//@   option nosafety
//@   loop 0 invariant finalResult != nil && !finalResult.Allowed && (cyc ==> finalResult.ResolutionMetadata.CycleDetected)
//@   ensures @cycleSticks err == nil && resp != nil && !resp.Allowed ==> (cyc ==> resp.ResolutionMetadata.CycleDetected)
//@   ensures @errorNoAnswer err != nil ==> resp == nil
//@   ensures @deniedWithoutError err == nil && resp != nil && !resp.Allowed ==> finalErr == nil
//@   monitor cycles
//@     ghost cyc = false
//@     after call (*graph.ResolveCheckResponse).GetResolutionMetadata returning m : cyc = cyc || m.CycleDetected

// ------------------------------------------------------------------ C20: iterators opened by the default engine are released
// (C20, release kernel: the iterator opened here is released on every path — its outermost adapter is stopped by a
// registered defer; the adapters' Stop reaches the wrapped iterator, see pkg/storage)
//@ func (*LocalChecker).checkDirectUsersetTuples$1(ctx) (res, err)
//@   property C20
//@   option nosafety
//@   loop 0 invariant opened ==> released
//@   ensures @iteratorReleased opened ==> released
//@   monitor release
//@     ghost cur iface = nil
//@     ghost opened = false
//@     ghost released = false
//@     after call checkutil.IteratorReadUsersetTuples returning it, e : opened = e == nil ; cur = it ; released = false
//@     after call storage.NewTupleKeyIteratorFromTupleIterator args x returning r : cur = (x == cur ? r : cur)
//@     after call storage.NewFilteredTupleKeyIterator args x, f returning r : cur = (x == cur ? r : cur)
//@     after call storage.NewConditionsFilteredTupleKeyIterator args x, f returning r : cur = (x == cur ? r : cur)
//@     after call defer:storage.Iterator.Stop | defer:storage.TupleKeyIterator.Stop | defer:storage.TupleIterator.Stop args recv : released = released || recv == cur

//@ func (*LocalChecker).checkTTU$1(ctx) (res, err)
//@   property C20
//@   option nosafety
//@   ensures @iteratorReleased opened ==> released
//@   monitor release
//@     ghost cur iface = nil
//@     ghost opened = false
//@     ghost released = false
//@     after call checkutil.IteratorReadStartingFromUser | storage.RelationshipTupleReader.Read | storage.RelationshipTupleReader.ReadStartingWithUser returning it, e : opened = e == nil ; cur = it ; released = false
//@     after call storage.NewTupleKeyIteratorFromTupleIterator args x returning r : cur = (x == cur ? r : cur)
//@     after call storage.NewFilteredTupleKeyIterator args x, f returning r : cur = (x == cur ? r : cur)
//@     after call storage.NewConditionsFilteredTupleKeyIterator args x, f returning r : cur = (x == cur ? r : cur)
//@     after call defer:storage.Iterator.Stop | defer:storage.TupleKeyIterator.Stop | defer:storage.TupleIterator.Stop args recv : released = released || recv == cur

// ------------------------------------------------------------------ C19: no-panic sweep (thin, safety-only contracts)
// every index and slice expression of these functions is in range for ALL inputs, with no precondition (generated by
// bin/sweepgen, kept because every obligation discharges; callees without contract are treated as arbitrary)
//@ func NewCachedCheckResolver(a0) (r0, r1)
//@   property C19
//@   option nosafety
//@   option safety slice,index

//@ func fastPathDifference(a0, a1, a2)
//@   property C19
//@   option nosafety
//@   option safety slice,index

// ------------------------------------------------------------------ C20: the shadow evaluation is bounded by its timeout
// the background shadow Check runs under the context derived with the shadow timeout (and cancelled on exit), on a
// clone of the request — never under a context without deadline
//@ func (ShadowResolver).ResolveCheck$1()
//@   property C20
//@   option nosafety
//@   option defer_neutral
//@   monitor bounded
//@     ghost tctx iface = nil
//@     ghost derived = false
//@     ghost cancelArmed = false
//@     after call context.WithTimeout args parent, d returning c, cancel : tctx = c ; derived = d == s.shadowTimeout
//@     after call defer:dynamic : cancelArmed = true
//@     before call graph.CheckResolver.ResolveCheck args _, c, r : assert derived && c == tctx && cancelArmed
