//go:build verif

// Contracts for package graph, checked by /verif/govc. Comment-only; compiled only under the build tag "verif".
package graph

//@ func (*CachedCheckResolver).ResolveCheck(c, ctx, req) (res, err)
//@   property C10
//@   option nosafety
//@   requires c != nil && req != nil && c.delegate != nil && c.cache != nil
//@   ensures @higherBypass old(req.Consistency) == openfgav1.ConsistencyPreference_HIGHER_CONSISTENCY ==> innerCalled && innerReq == req && err == innerErr && (innerErr == nil ==> res == innerRes)
//@   monitor noCacheOnHigher
//@     ghost innerCalled = false
//@     ghost innerRes ref = nil
//@     ghost innerErr error = nil
//@     ghost innerReq ref = nil
//@     after call graph.CheckResolver.ResolveCheck args _, _, a_req returning r, e : innerCalled = true ; innerRes = r ; innerErr = e ; innerReq = a_req
//@     before call storage.InMemoryCache.Get : assert req.Consistency != openfgav1.ConsistencyPreference_HIGHER_CONSISTENCY
