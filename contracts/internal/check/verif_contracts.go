//go:build verif

// Contracts for package check (weighted-graph engine), checked by /verif/govc. Comment-only; build tag "verif".
package check

//@ func (*Resolver).isCached(r, consistency, key) (res, ok)
//@   property C10 C11
//@   option nosafety
//@   requires r != nil && r.cache != nil
//@   ensures @higherBypass consistency == openfgav1.ConsistencyPreference_HIGHER_CONSISTENCY ==> !ok && res == nil
//@   ensures @servedOnlyIfValid ok ==> typeIs(gmap("cache", r.cache, key), "*check.ResponseCacheEntry") && res == as(gmap("cache", r.cache, key), "*check.ResponseCacheEntry").Res && ts(as(gmap("cache", r.cache, key), "*check.ResponseCacheEntry").LastModified) > ts(r.lastCacheInvalidationTime)
//@   ensures @notServed !ok ==> res == nil
//@   monitor noCacheOnHigher
//@     before call storage.InMemoryCache.* : assert consistency != openfgav1.ConsistencyPreference_HIGHER_CONSISTENCY

// ------------------------------------------------------------------ C04 / C24 / C08: the request's cache keys fold in every input
// the invariant key is built from this request's store, model, context and ALL its contextual tuples; the sub-problem
// key from the store, the tuple's object, relation, user and that invariant key
//@ func NewRequest(p) (r, err)
//@   property C04 C08 C24
//@   option nosafety
//@   ensures @inv err == nil ==> invCalled && invOK
//@   ensures @key err == nil ==> keyCalled && keyOK
//@   ensures @built err == nil ==> r != nil && finished && r == finishedReq
//@   ensures @failClosed err != nil ==> r == nil
//@   monitor keyInputs
//@     ghost invCalled = false
//@     ghost invOK = false
//@     ghost invKey int = 0
//@     ghost keyCalled = false
//@     ghost keyOK = false
//@     ghost built S_keys.Key = built
//@     ghost finished = false
//@     ghost finishedReq *check.Request = nil
//@     before call (*check.Request).buildContextualTupleMaps args rr : assert rr != nil && invCalled && keyCalled && rr.invariantCacheKey == invKey && rr.cacheKey == built && rr.StoreID == p.StoreID && rr.ContextualTuples == p.ContextualTuples && rr.Context == p.Context && rr.Consistency == p.Consistency && rr.TupleKey == p.TupleKey
//@     after call (*check.Request).buildContextualTupleMaps args rr : finished = true ; finishedReq = rr
//@     after call storage.InvariantCacheKey args s, m, c, tks returning k : invCalled = true ; invKey = k ; invOK = s == p.StoreID && m == old(p.Model.GetModelID()) && c == p.Context && tks == p.ContextualTuples
//@     after call storage.CheckCacheKey args s, o, rl, u, inv returning k : keyCalled = true ; built = k ; keyOK = s == p.StoreID && o == p.TupleKey.GetObject() && rl == p.TupleKey.GetRelation() && u == p.TupleKey.GetUser() && inv == invKey

// the tuples an edge evaluation sees are the stored ones (the iterator handed in) preceded by the request's
// contextual tuples for this object, relation and user type whenever there are any; filtering only wraps that sequence
//@ func (*Resolver).buildIterator(r, ctx, req, iter, conditions, relation, userType, visited) (res)
//@   property C04 C25 C03
//@   option nosafety
// ... and whenever the edge may carry a condition (some listed condition is not the "none" marker) the sequence is
// wrapped by the condition filter built from exactly these conditions and this request's context (C25 / C03: a
// conditioned tuple is never followed unevaluated)
//@   option monitor_props condFilter=C25,C03
//@   ensures @conditionsEnforced (len(conditions) > 1 || (len(conditions) == 1 && conditions[0] != graph.NoCond)) ==> condBuilt && condInstalled
//@   monitor condFilter
//@     ghost condBuilt = false
//@     ghost condF ref = nil
//@     ghost condInstalled = false
//@     after call check.BuildConditionTupleKeyFilter args _, m, cs, rc returning f : condBuilt = pre(cs == conditions && rc == req.GetContext()) ; condF = f
//@     after call iterator.NewFilteredIterator* args it, fs : condInstalled = pre(len(fs) >= 1 && fs[len(fs) - 1] == condF)
//@   ensures @storedIncluded converted && convArg == iter
//@   ensures @contextualMerged ctxLooked && (ctxFound ==> concatenated && concatOK)
//@   ensures @onlyWrapped res == cur || (filtered && filterArg == cur && res == filterRes)
//@   monitor merge
//@     ghost converted = false
//@     ghost convArg iface = nil
//@     ghost base iface = nil
//@     ghost cur iface = nil
//@     ghost ctxLooked = false
//@     ghost ctxFound = false
//@     ghost ctxTs []*openfgav1.TupleKey = ctxTs
//@     ghost staticIt iface = nil
//@     ghost staticOK = false
//@     ghost concatenated = false
//@     ghost concatOK = false
//@     ghost filtered = false
//@     ghost filterArg iface = nil
//@     ghost filterRes iface = nil
//@     after call storage.NewTupleKeyIteratorFromTupleIterator args it returning k : converted = true ; convArg = it ; base = k ; cur = k
//@     before call (*check.Request).GetContextualTuplesByObjectID args rq, o, rel, ut : assert rq == req && o == req.GetTupleKey().GetObject() && rel == relation && ut == userType
//@     after call (*check.Request).GetContextualTuplesByObjectID returning ts, ok : ctxLooked = true ; ctxFound = ok ; ctxTs = ts
//@     after call storage.NewStaticTupleKeyIterator args ts returning s : staticIt = s ; staticOK = ts == ctxTs
//@     after call iterator.Concat args a, b returning c : concatenated = true ; concatOK = staticOK && a == staticIt && b == base && converted ; cur = c
//@     after call iterator.NewFilteredIterator args it, fs returning f : filtered = true ; filterArg = it ; filterRes = f

// ------------------------------------------------------------------ C20: iterators opened by the weighted-graph engine are released
// (release kernel: every datastore iterator opened by an edge resolver is stopped by a defer registered right after it
// was obtained, on every path)
//@ func (*Resolver).resolveRecursiveUserset(r, ctx, req, edge, visited, canApplyOptimization) (res, err)
//@   property C20
//@   option nosafety
//@   ensures @iteratorReleased opened ==> released
//@   monitor release
//@     ghost cur iface = nil
//@     ghost opened = false
//@     ghost released = false
//@     after call storage.RelationshipTupleReader.Read | storage.RelationshipTupleReader.ReadUsersetTuples | storage.RelationshipTupleReader.ReadStartingWithUser returning it, e : opened = e == nil ; cur = it ; released = false
//@     after call defer:storage.Iterator.Stop | defer:storage.TupleKeyIterator.Stop | defer:storage.TupleIterator.Stop args recv : released = released || recv == cur

//@ func (*Resolver).resolveRecursiveTTU(r, ctx, req, edge, visited, canApplyOptimization) (res, err)
//@   property C20
//@   option nosafety
//@   ensures @iteratorReleased opened ==> released
//@   monitor release
//@     ghost cur iface = nil
//@     ghost opened = false
//@     ghost released = false
//@     after call storage.RelationshipTupleReader.Read | storage.RelationshipTupleReader.ReadUsersetTuples | storage.RelationshipTupleReader.ReadStartingWithUser returning it, e : opened = e == nil ; cur = it ; released = false
//@     after call defer:storage.Iterator.Stop | defer:storage.TupleKeyIterator.Stop | defer:storage.TupleIterator.Stop args recv : released = released || recv == cur

//@ func (*Resolver).specificTypeWildcard(r, ctx, req, edge) (res, err)
//@   property C20
//@   option nosafety
//@   ensures @iteratorReleased opened ==> released
//@   monitor release
//@     ghost cur iface = nil
//@     ghost opened = false
//@     ghost released = false
//@     after call storage.RelationshipTupleReader.Read | storage.RelationshipTupleReader.ReadUsersetTuples | storage.RelationshipTupleReader.ReadStartingWithUser returning it, e : opened = e == nil ; cur = it ; released = false
//@     after call defer:storage.Iterator.Stop | defer:storage.TupleKeyIterator.Stop | defer:storage.TupleIterator.Stop args recv : released = released || recv == cur

// (C01 / C03, userset subjects: a direct assignment answers the edge only if it errs, allows, or the edge is neither
// recursive nor part of a tuple cycle — on a recursive or cyclic edge a subject that is not directly assigned is looked
// for among the usersets assigned to the object, i.e. the cycle is expanded)
//@ func (*Resolver).specificTypeAndRelation(r, ctx, req, edge, visited) (res, err)
//@   property C20 C01 C03
//@   option nosafety
//@   option monitor_props expansion=C01,C03 release=C20
//@   ensures @cyclicEdgesAreExpanded directDone && dErr == nil && !dAllowed && cyclic ==> expanded
//@   monitor expansion
//@     ghost directDone = false
//@     ghost dErr error = nil
//@     ghost dAllowed = false
//@     ghost cyclic = false
//@     ghost expanded = false
//@     after call (*check.Resolver).specificType args _, _, rq, e returning r0, e0 : directDone = rq == req && e == edge ; dErr = e0 ; dAllowed = r0.GetAllowed() ; cyclic = (edge.GetRecursiveRelation() != "" || edge.IsPartOfTupleCycle())
//@     after call storage.RelationshipTupleReader.ReadUsersetTuples : expanded = true
//@   ensures @iteratorReleased opened ==> released
//@   monitor release
//@     ghost cur iface = nil
//@     ghost opened = false
//@     ghost released = false
//@     after call storage.RelationshipTupleReader.Read | storage.RelationshipTupleReader.ReadUsersetTuples | storage.RelationshipTupleReader.ReadStartingWithUser returning it, e : opened = e == nil ; cur = it ; released = false
//@     after call defer:storage.Iterator.Stop | defer:storage.TupleKeyIterator.Stop | defer:storage.TupleIterator.Stop args recv : released = released || recv == cur

//@ func (*Resolver).ttu(r, ctx, req, edge, visited) (res, err)
//@   property C20
//@   option nosafety
//@   ensures @iteratorReleased opened ==> released
//@   monitor release
//@     ghost cur iface = nil
//@     ghost opened = false
//@     ghost released = false
//@     after call storage.RelationshipTupleReader.Read | storage.RelationshipTupleReader.ReadUsersetTuples | storage.RelationshipTupleReader.ReadStartingWithUser returning it, e : opened = e == nil ; cur = it ; released = false
//@     after call defer:storage.Iterator.Stop | defer:storage.TupleKeyIterator.Stop | defer:storage.TupleIterator.Stop args recv : released = released || recv == cur

// ------------------------------------------------------------------ C19: no-panic sweep (thin, safety-only contracts)
// every index and slice expression of these functions is in range for ALL inputs, with no precondition (generated by
// bin/sweepgen, kept because every obligation discharges; callees without contract are treated as arbitrary)
//@ func (*Recursive).buildTupleMapperForID(recv, a0, a1, a2, a3, a4, a5) (r0, r1)
//@   property C19
//@   option nosafety
//@   option safety slice,index

//@ func (*Recursive).execute(recv, a0, a1, a2, a3, a4, a5) (r0, r1)
//@   property C19
//@   option nosafety
//@   option safety slice,index

//@ func (*Request).buildContextualTupleMaps(recv)
//@   property C19
//@   option nosafety
//@   option safety slice,index

//@ func (*Weight2).execute(recv, a0, a1, a2) (r0, r1)
//@   property C19
//@   option nosafety
//@   option safety slice,index

//@ func (*bottomUp).setOperationSetup(recv, a0, a1, a2, a3) (r0, r1)
//@   property C19
//@   option nosafety
//@   option safety slice,index

// ------------------------------------------------------------------ C01 / C08 / C19: the cycle-detection state of the weighted-graph engine
// ResolveEdge hands the visited set on exactly along edges that are part of a tuple cycle or recursive (elsewhere the
// sub-problem starts without one), and dispatches every edge type to its resolver with this request and this edge /
// this edge's target node
//@ func (*Resolver).ResolveEdge(r, ctx, req, edge, visited) (res, err)
//@   property C01 C08 C19
//@   option nosafety
//@   option defer_neutral
//@   monitor dispatch
//@     before call (*check.Resolver).specificType args _, _, rq, e : assert rq == req && e == edge
//@     before call (*check.Resolver).specificTypeWildcard args _, _, rq, e : assert rq == req && e == edge
//@     before call (*check.Resolver).specificTypeAndRelation args _, _, rq, e, v : assert rq == req && e == edge && v == ((edge.IsPartOfTupleCycle() || edge.GetRecursiveRelation() != "") ? visited : nil)
//@     before call (*check.Resolver).ttu args _, _, rq, e, v : assert rq == req && e == edge && v == ((edge.IsPartOfTupleCycle() || edge.GetRecursiveRelation() != "") ? visited : nil)
//@     before call (*check.Resolver).ResolveUnion args _, _, rq, n, v : assert rq == req && n == edge.GetTo() && v == ((edge.IsPartOfTupleCycle() || edge.GetRecursiveRelation() != "") ? visited : nil)
//@     before call (*check.Resolver).ResolveRewrite args _, _, rq, n, v : assert rq == req && n == edge.GetTo() && v == ((edge.IsPartOfTupleCycle() || edge.GetRecursiveRelation() != "") ? visited : nil)

// ResolveUnion starts a visited set — seeded with the object#relation under evaluation — exactly when none was handed in
// and the node is a relation node that is recursive or part of a tuple cycle; a set handed in is passed on unchanged
//@ func (*Resolver).ResolveUnion(r, ctx, req, node, visited) (res, err)
//@   property C01 C08 C19
//@   option nosafety
//@   option defer_neutral
//@   option stable node
//@   option stable req
//@   monitor cycleState
//@     ghost seeded = false
//@     ghost seedMap ref = nil
//@     after call (*sync.Map).Store args m, k, v : seeded = pre(typeIs(k, "string") && as(k, "string") == tuple.ToObjectRelationString(req.GetTupleKey().GetObject(), req.GetTupleKey().GetRelation())) ; seedMap = m
//@     before call (*check.Resolver).ResolveRecursive args _, _, rq, e, v : assert rq == req && (visited != nil ==> v == visited) && (visited == nil && old(node.GetNodeType() == graph.SpecificTypeAndRelation && (node.GetRecursiveRelation() == node.GetUniqueLabel() || node.IsPartOfTupleCycle())) ==> v != nil && seeded && v == seedMap) && (visited == nil && !(old(node.GetNodeType() == graph.SpecificTypeAndRelation && (node.GetRecursiveRelation() == node.GetUniqueLabel() || node.IsPartOfTupleCycle()))) ==> v == nil)
//@     before call (*check.Resolver).ResolveUnionEdges args _, _, rq, es, v : assert rq == req && (visited != nil ==> v == visited) && (visited == nil && old(node.GetNodeType() == graph.SpecificTypeAndRelation && (node.GetRecursiveRelation() == node.GetUniqueLabel() || node.IsPartOfTupleCycle())) ==> v != nil && seeded && v == seedMap) && (visited == nil && !(old(node.GetNodeType() == graph.SpecificTypeAndRelation && (node.GetRecursiveRelation() == node.GetUniqueLabel() || node.IsPartOfTupleCycle()))) ==> v == nil)

// ResolveRewrite dispatches on the node: relation and union nodes keep the visited set, intersection and exclusion are
// evaluated without one, and an exclusion is never evaluated for a typed-wildcard request
//@ func (*Resolver).ResolveRewrite(r, ctx, req, node, visited) (res, err)
//@   property C01 C08 C19
//@   option nosafety
//@   monitor dispatch
//@     before call (*check.Resolver).ResolveUnion args _, _, rq, n, v : assert rq == req && n == node && v == visited
//@     before call (*check.Resolver).ResolveIntersection args _, _, rq, n : assert rq == req && n == node
//@     before call (*check.Resolver).ResolveExclusion args _, _, rq, n : assert rq == req && n == node && !req.IsTypedWildcard()

// the recursive strategy's per-object reader: same rule — whenever the edge may carry a condition, the tuples it maps
// pass through the condition filter built from the edge's conditions and this request's context
//@ func (*Recursive).buildTupleMapperForID(s, ctx, req, edge, recursiveType, id, visited) (res, err)
//@   property C25 C03
//@   option nosafety
//@   ensures @conditionsEnforced err == nil && res != nil ==> wrapped && (needs ==> condBuilt && condInstalled)
//@   monitor condFilter
//@     ghost condBuilt = false
//@     ghost condF ref = nil
//@     ghost condInstalled = false
//@     ghost needs = false
//@     ghost wrapped = false
//@     after call check.BuildConditionTupleKeyFilter args _, m, cs, rc returning f : condBuilt = pre(cs == conditions && cs == edge.GetConditions() && rc == req.GetContext()) ; condF = f
//@     after call iterator.NewFilteredIterator* args it, fs : wrapped = true ; needs = pre(conditions == edge.GetConditions() && (len(conditions) > 1 || (len(conditions) == 1 && conditions[0] != graph.NoCond))) ; condInstalled = pre(len(fs) >= 1 && fs[len(fs) - 1] == condF)
