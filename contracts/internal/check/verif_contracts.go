//go:build verif

// Contracts for package check (weighted-graph engine), checked by /verif/govc. Comment-only; build tag "verif".
package check

//@ func (*Resolver).isCached(r, consistency, key) (res, ok)
//@   property C10 C11
//@   option nosafety
//@   requires r != nil && r.cache != nil
//@   ensures @higherBypass consistency == openfgav1.ConsistencyPreference_HIGHER_CONSISTENCY ==> !ok && res == nil
//@   ensures @servedOnlyIfValid ok ==> typeIs(gmap("cache", r.cache, key), "*check.ResponseCacheEntry") && res == as(gmap("cache", r.cache, key), "*check.ResponseCacheEntry").Res && ts(as(gmap("cache", r.cache, key), "*check.ResponseCacheEntry").LastModified) > ts(r.lastCacheInvalidationTime)
//@   ensures @notServed !ok ==> res == nil
//@   monitor noCacheOnHigher
//@     before call storage.InMemoryCache.* : assert consistency != openfgav1.ConsistencyPreference_HIGHER_CONSISTENCY
