//go:build verif

// Contracts for package presharedkey, checked by /verif/govc. Comment-only; compiled only under the build tag "verif".
package presharedkey

//@ property C27

// the authenticator stores exactly the SHA-256 digest of every configured key, in order; no key list, no authenticator
//@ func NewPresharedKeyAuthenticator(validKeys) (a, err)
//@   option nosafety
//@   modifies nothing
//@   loop 0 invariant fresh(hashes) && len(hashes) == $idx + 1 && $idx < len(validKeys) && forall j int :: 0 <= j && j <= $idx ==> hashes[j] == sha256of(validKeys[j])
//@   ensures @needsKey err == nil <==> len(validKeys) >= 1
//@   ensures @digests err == nil ==> a != nil && len(a.validKeyHashes) == len(validKeys) && forall j int :: 0 <= j && j < len(validKeys) ==> a.validKeyHashes[j] == sha256of(validKeys[j])
//@   ensures @failClosed err != nil ==> a == nil

// a request is accepted exactly when it carries a bearer token whose digest is one of the configured digests: the token
// is hashed as presented (no trimming, no case folding), every configured digest is compared, nothing else is consulted
//@ func (*PresharedKeyAuthenticator).Authenticate(pka, ctx) (claims, err)
//@   option nosafety
//@   modifies nothing
//@   requires pka != nil
//@   loop 0 invariant (matched == 0 || matched == 1) && $idx < len(pka.validKeyHashes) && tokenHash == sha256of(bearerToken(ctx))
//@   loop 0 invariant @found matched == 1 <==> (exists j int :: 0 <= j && j <= $idx && pka.validKeyHashes[j] == sha256of(bearerToken(ctx)))
//@   ensures @accept err == nil <==> (!bearerMissing(ctx) && (exists j int :: 0 <= j && j < len(pka.validKeyHashes) && pka.validKeyHashes[j] == sha256of(bearerToken(ctx))))
//@   ensures @claims err == nil ==> claims != nil && claims.Subject == ""
//@   ensures @failClosed err != nil ==> claims == nil

// end to end: with a collision-free digest (cryptographic assumption on SHA-256, stated here), a request is accepted
// exactly when its bearer token equals one of the configured keys
//@ lemma presharedkey_accepts_exactly_configured_keys(keys []string, ctx context.Context)
//@   requires len(keys) >= 1
//@   let a, e = NewPresharedKeyAuthenticator(keys)
//@   let c, err = (*PresharedKeyAuthenticator).Authenticate(a, ctx)
//@   assume forall x string, y string :: sha256of(x) == sha256of(y) ==> x == y
//@   ensures @constructed e == nil
//@   ensures @sound err == nil ==> (!bearerMissing(ctx) && (exists j int :: 0 <= j && j < len(keys) && keys[j] == bearerToken(ctx)))
//@   ensures @complete forall j int :: 0 <= j && j < len(keys) && keys[j] == bearerToken(ctx) && !bearerMissing(ctx) ==> err == nil
