//go:build verif

// Contracts for package oidc, checked by /verif/govc. Comment-only; compiled only under the build tag "verif".
// The JWT library (github.com/golang-jwt/jwt/v5) and the JWKS key function are outside the verified set: what is proved
// here is that a token is accepted only after the library was asked for exactly the documented checks (RS256 only,
// issued-at not in the future, expiry required, the configured audience, signature keys from the issuer's key set,
// the configured issuer or an alias, an allowed subject when subjects are configured) and answered "valid" to each.
package oidc

//@ property C27

//@ spec issuersOf(o ref, s slice) bool = len(s) == 1 + len(o.IssuerAliases) && s[0] == o.MainIssuer && (forall i int :: 0 <= i && i < len(o.IssuerAliases) ==> s[1+i] == o.IssuerAliases[i])

//@ func (*RemoteOidcAuthenticator).Authenticate(oidc, requestContext) (claims, err)
//@   option nosafety
//@   option stable oidc
//@   requires oidc != nil
//@   ensures @bearer err == nil ==> !bearerMissing(requestContext)
//@   ensures @parsed err == nil ==> parsed && parseErr == nil
//@   ensures @issuer err == nil ==> issuerChecked
//@   ensures @subjects err == nil && len(old(oidc.Subjects)) > 0 ==> subjectChecked
//@   ensures @failClosed err != nil ==> claims == nil
//@   monitor jwtChecks
//@     ghost parsed = false
//@     ghost parseErr error = nil
//@     ghost parsedTok *jwt.Token = nil
//@     ghost parserBuilt = false
//@     ghost builtParser ref = nil
//@     ghost oMethods ref = nil
//@     ghost oIat ref = nil
//@     ghost oExp ref = nil
//@     ghost oAud ref = nil
//@     ghost calledMethods = false
//@     ghost calledIat = false
//@     ghost calledExp = false
//@     ghost calledAud = false
//@     ghost methodsOK = false
//@     ghost audOK = false
//@     ghost issuerChecked = false
//@     ghost subjectChecked = false
//@     after call v5.WithValidMethods args m returning o : oMethods = o ; calledMethods = true ; methodsOK = len(m) == 1 && m[0] == "RS256"
//@     after call v5.WithIssuedAt returning o : oIat = o ; calledIat = true
//@     after call v5.WithExpirationRequired returning o : oExp = o ; calledExp = true
//@     after call v5.WithAudience args a returning o : oAud = o ; calledAud = true ; audOK = len(a) == 1 && a[0] == oidc.Audience
//@     before call v5.NewParser args opts : assert calledMethods && methodsOK && calledIat && calledExp && calledAud && audOK && len(opts) == 4 && (exists i int :: 0 <= i && i < len(opts) && opts[i] == oMethods) && (exists i int :: 0 <= i && i < len(opts) && opts[i] == oIat) && (exists i int :: 0 <= i && i < len(opts) && opts[i] == oExp) && (exists i int :: 0 <= i && i < len(opts) && opts[i] == oAud)
//@     after call v5.NewParser returning p : builtParser = p ; parserBuilt = true
//@     before call (*v5.Parser).Parse args p, s, kf : assert parserBuilt && p == builtParser && s == bearerToken(requestContext) && closureOf(kf, "Authenticate$1") && closureBinds(kf, 0, addrOf(oidc))
//@     after call (*v5.Parser).Parse returning t, e : parsed = true ; parseErr = e ; parsedTok = t
//@     before call slices.ContainsFunc args s, f : assert parsed && parseErr == nil && parsedTok != nil && parsedTok.Valid && typeIs(parsedTok.Claims, "jwt.MapClaims") && claims == as(parsedTok.Claims, "jwt.MapClaims") && closureBinds(f, 0, addrOf(claims)) && ((closureOf(f, "Authenticate$2") && issuersOf(oidc, s)) || (closureOf(f, "Authenticate$3") && s == oidc.Subjects))
//@     after call slices.ContainsFunc args s, f returning r : issuerChecked = issuerChecked || (r && closureOf(f, "Authenticate$2")) ; subjectChecked = subjectChecked || (r && closureOf(f, "Authenticate$3"))

// the signature keys are the issuer's key set
//@ func (*RemoteOidcAuthenticator).Authenticate$1(token) (key, err)
//@   option nosafety
//@   ensures @jwks called && key == kRes && err == kErr && kTok == token && kSet == old(deref(oidc).JWKs)
//@   monitor keyfunc
//@     ghost called = false
//@     ghost kRes iface = nil
//@     ghost kErr error = nil
//@     ghost kTok ref = nil
//@     ghost kSet ref = nil
//@     after call (*v2.JWKS).Keyfunc args j, t returning k, e : called = true ; kRes = k ; kErr = e ; kTok = t ; kSet = j

// an issuer matches exactly when the library's issuer validation of these claims against it succeeds
//@ func (*RemoteOidcAuthenticator).Authenticate$2(issuer) (ok)
//@   option nosafety
//@   ensures @exact ok <==> (validated && vErr == nil)
//@   ensures @how validated && optOK && vOptsOK && validatorOK && claimsOK
//@   monitor v
//@     ghost validated = false
//@     ghost vErr error = nil
//@     ghost oIss ref = nil
//@     ghost optOK = false
//@     ghost builtV ref = nil
//@     ghost vOptsOK = false
//@     ghost validatorOK = false
//@     ghost claimsOK = false
//@     after call v5.WithIssuer args i returning o : oIss = o ; optOK = i == issuer
//@     before call v5.NewValidator args opts : assert optOK && len(opts) == 1 && opts[0] == oIss
//@     after call v5.NewValidator returning v : builtV = v ; vOptsOK = true
//@     after call (*v5.Validator).Validate args v, c returning e : validated = true ; vErr = e ; validatorOK = v == builtV ; claimsOK = typeIs(c, "jwt.MapClaims") && as(c, "jwt.MapClaims") == old(deref(claims))

// a subject matches exactly when the library's subject validation (which requires the sub claim) succeeds
//@ func (*RemoteOidcAuthenticator).Authenticate$3(subject) (ok)
//@   option nosafety
//@   ensures @exact ok <==> (validated && vErr == nil)
//@   ensures @how validated && optOK && vOptsOK && validatorOK && claimsOK
//@   monitor v
//@     ghost validated = false
//@     ghost vErr error = nil
//@     ghost oSub ref = nil
//@     ghost optOK = false
//@     ghost builtV ref = nil
//@     ghost vOptsOK = false
//@     ghost validatorOK = false
//@     ghost claimsOK = false
//@     after call v5.WithSubject args i returning o : oSub = o ; optOK = i == subject
//@     before call v5.NewValidator args opts : assert optOK && len(opts) == 1 && opts[0] == oSub
//@     after call v5.NewValidator returning v : builtV = v ; vOptsOK = true
//@     after call (*v5.Validator).Validate args v, c returning e : validated = true ; vErr = e ; validatorOK = v == builtV ; claimsOK = typeIs(c, "jwt.MapClaims") && as(c, "jwt.MapClaims") == old(deref(claims))
