//go:build verif

// Contracts for package iterator, checked by /verif/govc. Comment-only; compiled only under the build tag "verif".
package iterator

// ------------------------------------------------------------------ C20: stopping a stream releases what it has not consumed
// Stop stops the iterator the stream is currently reading (if any) and ALWAYS drains its source channel, so that every
// iterator already opened for it but not yet fetched is stopped too — also when no buffer was ever fetched
//@ func (*Stream).Stop(s)
//@   property C20
//@   option nosafety
//@   option stable s
//@   ensures @sourceDrained drained
//@   ensures @bufferReleased old(s.buffer != nil) ==> bufStopped && s.buffer == nil
//@   monitor release
//@     ghost drained = false
//@     ghost bufStopped = false
//@     after call iterator.Drain args src : drained = drained || pre(src == s.source)
//@     after call storage.Iterator.Stop | storage.TupleKeyIterator.Stop | storage.TupleIterator.Stop args it : bufStopped = bufStopped || pre(it == s.buffer)

// the drain worker stops every iterator still in the channel
//@ func Drain$1()
//@   property C20
//@   option nosafety
//@   monitor stopAll
//@     before call storage.Iterator.Stop | storage.TupleKeyIterator.Stop | storage.TupleIterator.Stop args it : assert it == msg.Iter && it != nil
