//go:build verif

// Contracts for package authz, checked by /verif/govc. Comment-only; compiled only under the build tag "verif".
package authz

//@ property C26

// The relation each API method needs on the access-control store. Written out with literal strings (double entry
// against the switch in getRelation and against the constant block).
//@ spec relationFor(m string) string = (m == "ReadAuthorizationModel" || m == "ReadAuthorizationModels") ? "can_call_read_authorization_models" : (m == "Read" ? "can_call_read" : (m == "Write" ? "can_call_write" : ((m == "ListObjects" || m == "StreamedListObjects") ? "can_call_list_objects" : ((m == "Check" || m == "BatchCheck") ? "can_call_check" : (m == "ListUsers" ? "can_call_list_users" : (m == "WriteAssertions" ? "can_call_write_assertions" : (m == "ReadAssertions" ? "can_call_read_assertions" : (m == "WriteAuthorizationModel" ? "can_call_write_authorization_models" : (m == "ListStores" ? "can_call_list_stores" : (m == "CreateStore" ? "can_call_create_stores" : (m == "GetStore" ? "can_call_get_store" : (m == "DeleteStore" ? "can_call_delete_store" : (m == "Expand" ? "can_call_expand" : (m == "ReadChanges" ? "can_call_read_changes" : ""))))))))))))))

//@ func (*Authorizer).getRelation(a, apiMethod) (rel, err)
//@   pure
//@   ensures @table relationFor(apiMethod) != "" ==> err == nil && rel == relationFor(apiMethod)
//@   ensures @unknown relationFor(apiMethod) == "" ==> err != nil && rel == ""

//@ func checkAuthClaims(ctx) (c, err)
//@   option nosafety
//@   pure
//@   ensures @identity err == nil ==> c != nil && c.ClientID != ""
//@   ensures @denied err != nil ==> c == nil

//@ func (*Authorizer).individualAuthorize(a, ctx, clientID, relation, object, contextualTuples) (err)
//@   option nosafety
//@   requires a != nil && a.config != nil && a.server != nil
//@   ensures @onlyIfAllowed err == nil <==> (checkCalled && checkErr == nil && checkResp != nil && checkResp.Allowed)
//@   monitor controlStoreCheck
//@     ghost checkCalled = false
//@     ghost checkErr error = nil
//@     ghost checkResp *openfgav1.CheckResponse = nil
//@     before call authz.ServerInterface.Check args _, _, r : assert r != nil && r.StoreId == a.config.StoreID && r.AuthorizationModelId == a.config.ModelID && r.TupleKey != nil && r.TupleKey.User == "application:" + clientID && r.TupleKey.Relation == relation && r.TupleKey.Object == object && r.ContextualTuples == contextualTuples
//@     after call authz.ServerInterface.Check returning r, e : checkCalled = true ; checkErr = e ; checkResp = r

//@ func (*Authorizer).Authorize(a, ctx, storeID, apiMethod, modules) (err)
//@   option nosafety
//@   requires a != nil && a.config != nil && a.server != nil
//@   ensures @granted err == nil ==> claimsOK && relationFor(apiMethod) != "" && ((storeCalled && storeErr == nil) || (modCalled && modErr == nil && len(modules) == 1))
//@   monitor authorizeTrace
//@     ghost claimsOK = false
//@     ghost claims *authclaims.AuthClaims = nil
//@     ghost storeCalled = false
//@     ghost storeErr error = nil
//@     ghost modCalled = false
//@     ghost modErr error = nil
//@     after call authz.checkAuthClaims returning c, e : claimsOK = e == nil ; claims = c
//@     before call (*authz.Authorizer).individualAuthorize args _, _, cl, rel, obj, ct : assert claimsOK && cl == claims.ClientID && obj == "store:" + storeID && rel == relationFor(apiMethod) && rel != ""
//@     after call (*authz.Authorizer).individualAuthorize returning e : storeCalled = true ; storeErr = e
//@     before call (*authz.Authorizer).moduleAuthorize args _, _, cl, rel, st, mods : assert claimsOK && cl == claims.ClientID && st == storeID && rel == relationFor(apiMethod) && rel != "" && mods == modules && len(modules) == 1
//@     after call (*authz.Authorizer).moduleAuthorize returning e : modCalled = true ; modErr = e

//@ func (*Authorizer).AuthorizeCreateStore(a, ctx) (err)
//@   option nosafety
//@   requires a != nil && a.config != nil && a.server != nil
//@   ensures @granted err == nil ==> claimsOK && sysCalled && sysErr == nil
//@   monitor authorizeTrace
//@     ghost claimsOK = false
//@     ghost claims *authclaims.AuthClaims = nil
//@     ghost sysCalled = false
//@     ghost sysErr error = nil
//@     after call authz.checkAuthClaims returning c, e : claimsOK = e == nil ; claims = c
//@     before call (*authz.Authorizer).individualAuthorize args _, _, cl, rel, obj, ct : assert claimsOK && cl == claims.ClientID && obj == SystemObjectID && rel == "can_call_create_stores"
//@     after call (*authz.Authorizer).individualAuthorize returning e : sysCalled = true ; sysErr = e

//@ func (*Authorizer).AuthorizeListStores(a, ctx) (err)
//@   option nosafety
//@   requires a != nil && a.config != nil && a.server != nil
//@   ensures @granted err == nil ==> claimsOK && sysCalled && sysErr == nil
//@   monitor authorizeTrace
//@     ghost claimsOK = false
//@     ghost claims *authclaims.AuthClaims = nil
//@     ghost sysCalled = false
//@     ghost sysErr error = nil
//@     after call authz.checkAuthClaims returning c, e : claimsOK = e == nil ; claims = c
//@     before call (*authz.Authorizer).individualAuthorize args _, _, cl, rel, obj, ct : assert claimsOK && cl == claims.ClientID && obj == SystemObjectID && rel == "can_call_list_stores"
//@     after call (*authz.Authorizer).individualAuthorize returning e : sysCalled = true ; sysErr = e

//@ func (*Authorizer).ListAuthorizedStores(a, ctx) (ids, err)
//@   option nosafety
//@   requires a != nil && a.config != nil && a.server != nil
//@   ensures @granted err == nil ==> claimsOK && listCalled && listErr == nil
//@   monitor authorizeTrace
//@     ghost claimsOK = false
//@     ghost claims *authclaims.AuthClaims = nil
//@     ghost listCalled = false
//@     ghost listErr error = nil
//@     after call authz.checkAuthClaims returning c, e : claimsOK = e == nil ; claims = c
//@     before call authz.ServerInterface.ListObjects args _, _, r : assert claimsOK && r != nil && r.StoreId == a.config.StoreID && r.AuthorizationModelId == a.config.ModelID && r.User == "application:" + claims.ClientID && r.Relation == "can_call_get_store" && r.Type == "store"
//@     after call authz.ServerInterface.ListObjects returning r, e : listCalled = true ; listErr = e

// a write is confined to modules only if EVERY written and deleted tuple belongs to a module: the module extraction is
// run once over all writes followed by all deletes (a tuple outside any module makes the whole request fall back to
// store-level authorization)
//@ func (*Authorizer).GetModulesForWriteRequest(a, ctx, req, typesys) (res, err)
//@   property C26
//@   option nosafety
//@   option stable req
//@   option defer_neutral
//@   loop 0 invariant index == $idx + 1 && index <= len(req.GetWrites().GetTupleKeys()) && len(tuples) == len(req.GetWrites().GetTupleKeys()) + len(req.GetDeletes().GetTupleKeys()) && fresh(tuples)
//@   loop 0 invariant forall j int :: 0 <= j && j <= $idx ==> typeIs(tuples[j], "*openfgav1.TupleKey") && as(tuples[j], "*openfgav1.TupleKey") == req.GetWrites().GetTupleKeys()[j]
//@   loop 1 invariant index == len(req.GetWrites().GetTupleKeys()) + $idx + 1 && len(tuples) == len(req.GetWrites().GetTupleKeys()) + len(req.GetDeletes().GetTupleKeys()) && fresh(tuples)
//@   loop 1 invariant forall j int :: 0 <= j && j < len(req.GetWrites().GetTupleKeys()) ==> typeIs(tuples[j], "*openfgav1.TupleKey") && as(tuples[j], "*openfgav1.TupleKey") == req.GetWrites().GetTupleKeys()[j]
//@   loop 1 invariant forall j int :: 0 <= j && j <= $idx ==> typeIs(tuples[len(req.GetWrites().GetTupleKeys()) + j], "*openfgav1.TupleKeyWithoutCondition") && as(tuples[len(req.GetWrites().GetTupleKeys()) + j], "*openfgav1.TupleKeyWithoutCondition") == req.GetDeletes().GetTupleKeys()[j]
//@   ensures @extractedOnce err == nil ==> extracted == 1 && extractErr == nil
//@   monitor allTuples
//@     ghost extracted int = 0
//@     ghost extractErr error = nil
//@     before call authz.extractModulesFromTuples args ts, tsys : assert tsys == typesys && len(ts) == len(req.GetWrites().GetTupleKeys()) + len(req.GetDeletes().GetTupleKeys())
//@     before call authz.extractModulesFromTuples args ts, tsys : assert forall j int :: 0 <= j && j < len(req.GetWrites().GetTupleKeys()) ==> typeIs(ts[j], "*openfgav1.TupleKey") && as(ts[j], "*openfgav1.TupleKey") == req.GetWrites().GetTupleKeys()[j]
//@     before call authz.extractModulesFromTuples args ts, tsys : assert forall j int :: 0 <= j && j < len(req.GetDeletes().GetTupleKeys()) ==> as(ts[len(req.GetWrites().GetTupleKeys()) + j], "*openfgav1.TupleKeyWithoutCondition") == req.GetDeletes().GetTupleKeys()[j]
//@     after call authz.extractModulesFromTuples returning m, e : extracted = extracted + 1 ; extractErr = e

// one module's decision: a failed (or erroring) authorization of this module is reported to the collecting loop on
// every path of the worker — an error is never dropped, so "any error denies" survives the fan-out. (The contract is
// on the worker's sequential body; that the collector drains the channel after all workers finished is a schedule
// argument outside the technique.)
//@ func (*Authorizer).moduleAuthorize$1(module)
//@   property C26
//@   option nosafety
//@   option defer_neutral
//@   requires deref(a) != nil && deref(a).config != nil && deref(a).server != nil
//@   ensures @errorReported failed ==> sent
//@   monitor report
//@     ghost failed = false
//@     ghost sent = false
//@     ghost lastErr error = nil
//@     before call (*authz.Authorizer).individualAuthorize args _, _, cl, rel, obj : assert cl == deref(clientID) && rel == deref(relation)
//@     after call (*authz.Authorizer).individualAuthorize returning e : failed = e != nil ; lastErr = e
//@     before call send args v : assert failed && v == lastErr
//@     after call send : sent = true
