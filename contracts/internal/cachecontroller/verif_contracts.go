//go:build verif

// Contracts for package cachecontroller, checked by /verif/govc. Comment-only; compiled only under the build tag "verif".
package cachecontroller

//@ property C11

// the time handed to the query cache is the last-modified time of THIS store's changelog marker, or the zero time
// (cache usable, invalidation started) when there is no marker
//@ func (*InMemoryCacheController).DetermineInvalidationTime(c, ctx, storeID) (t)
//@   option nosafety
//@   option defer_neutral
//@   option stable c
//@   ensures @fromMarker looked && typeIs(got, "*storage.ChangelogCacheEntry") && as(got, "*storage.ChangelogCacheEntry") != nil ==> t == as(got, "*storage.ChangelogCacheEntry").LastModified
//@   ensures @noMarkerTriggers looked && !typeIs(got, "*storage.ChangelogCacheEntry") ==> triggered
//@   ensures @consulted looked
//@   monitor trigger
//@     ghost triggered = false
//@     ghost looked = false
//@     ghost got iface = nil
//@     before call storage.InMemoryCache.Get args _, k : assert k == storage.ChangelogCacheKey(storeID)
//@     after call storage.InMemoryCache.Get returning v : looked = true ; got = v
//@     after call (*cachecontroller.InMemoryCacheController).InvalidateIfNeeded args _, _, st : triggered = triggered || st == storeID

// the three markers are written under this store's keys with the given time
//@ func (*InMemoryCacheController).invalidateIteratorCache(c, storeID)
//@   option nosafety
//@   monitor marker
//@     before call storage.InMemoryCache.Set args _, k, v, ttl : assert k == storage.InvalidIteratorCacheKey(storeID) && typeIs(v, "*storage.InvalidEntityCacheEntry")

//@ func (*InMemoryCacheController).invalidateIteratorCacheByObjectRelation(c, storeID, object, relation, ts)
//@   option nosafety
//@   monitor marker
//@     before call storage.InMemoryCache.Set args _, k, v, ttl : assert k == storage.InvalidIteratorByObjectRelationCacheKey(storeID, object, relation) && typeIs(v, "*storage.InvalidEntityCacheEntry") && as(v, "*storage.InvalidEntityCacheEntry").LastModified == ts

//@ func (*InMemoryCacheController).invalidateIteratorCacheByUserAndObjectType(c, storeID, user, objectType, ts)
//@   option nosafety
//@   monitor marker
//@     before call storage.InMemoryCache.Set args _, k, v, ttl : assert k == storage.InvalidIteratorByUserObjectTypeCacheKey(storeID, user, objectType) && typeIs(v, "*storage.InvalidEntityCacheEntry") && as(v, "*storage.InvalidEntityCacheEntry").LastModified == ts

// the controller is built over exactly the given store, cache and TTLs (the marker TTLs decide how long an
// invalidation stays visible)
//@ func NewCacheController(ds, cache, ttl, queryCacheTTL, iteratorCacheTTL, opts) (r)
//@   option nosafety
//@   loop 0 invariant len(opts) == 0 ==> c != nil && c.ds == ds && c.cache == cache && c.minInvalidationInterval == ttl && c.queryCacheTTL == queryCacheTTL && c.iteratorCacheTTL == iteratorCacheTTL
//@   ensures @wired len(opts) == 0 ==> typeIs(r, "*cachecontroller.InMemoryCacheController") && as(r, "*cachecontroller.InMemoryCacheController").ds == ds && as(r, "*cachecontroller.InMemoryCacheController").cache == cache && as(r, "*cachecontroller.InMemoryCacheController").minInvalidationInterval == ttl && as(r, "*cachecontroller.InMemoryCacheController").queryCacheTTL == queryCacheTTL && as(r, "*cachecontroller.InMemoryCacheController").iteratorCacheTTL == iteratorCacheTTL

// one invalidation run: the store's changelog marker is refreshed with the time of the NEWEST change read; a failed
// changelog read invalidates every iterator entry of the store; every selected change invalidates the entries of its
// object#relation and of its user + object type, in this store
//@ func (*InMemoryCacheController).findChangesAndInvalidateIfNecessary(c, parentCtx, storeID)
//@   option nosafety
//@   option defer_neutral
//@   option stable c
//@   monitor run
//@     ghost gotNewest = false
//@     ghost newestT S_time.Time = newestT
//@     ghost newestOK = false
//@     after call (*timestamppb.Timestamp).AsTime args x returning tt : newestT = (gotNewest ? newestT : tt) ; newestOK = (gotNewest ? newestOK : x == changes[0].GetTimestamp()) ; gotNewest = true
//@     before call storage.InMemoryCache.Get args _, k : assert k == storage.ChangelogCacheKey(storeID)
//@     before call storage.InMemoryCache.Set args _, k, v, ttl : assert k == storage.ChangelogCacheKey(storeID) && typeIs(v, "*storage.ChangelogCacheEntry")
//@     before call storage.InMemoryCache.Set args _, k, v, ttl : assert gotNewest && newestOK
//@     before call storage.InMemoryCache.Set args _, k, v, ttl : assert lastChangeTimeActual == newestT && as(v, "*storage.ChangelogCacheEntry").LastModified == lastChangeTimeActual
//@     ghost gotRead = false
//@     ghost readAt S_time.Time = readAt
//@     after call time.Now returning n : readAt = (gotNewest && !gotRead ? n : readAt) ; gotRead = gotRead || gotNewest
//@     before call (*cachecontroller.InMemoryCacheController).invalidateIteratorCache args _, st : assert st == storeID
//@     before call (*cachecontroller.InMemoryCacheController).invalidateIteratorCacheByObjectRelation args _, st, o, r, tm : assert gotRead && ts(tm) >= ts(readAt)
//@     before call (*cachecontroller.InMemoryCacheController).invalidateIteratorCacheByUserAndObjectType args _, st, u, ot, tm : assert gotRead && ts(tm) >= ts(readAt)
//@     before call (*cachecontroller.InMemoryCacheController).invalidateIteratorCacheByObjectRelation args _, st, o, r, tm : assert st == storeID && o == t.GetObject() && r == t.GetRelation()
//@     before call (*cachecontroller.InMemoryCacheController).invalidateIteratorCacheByUserAndObjectType args _, st, u, ot, tm : assert st == storeID && u == t.GetUser() && ot == tuple.GetType(t.GetObject())

// the scan reads this store's changelog newest first, unfiltered
//@ func (*InMemoryCacheController).findChangesDescending(c, ctx, storeID) (changes, token, err)
//@   option nosafety
//@   monitor scan
//@     before call storage.ChangelogBackend.ReadChanges | storage.OpenFGADatastore.ReadChanges args _, _, st, f, o : assert st == storeID && f.ObjectType == "" && o.SortDesc && o.Pagination.From == ""
