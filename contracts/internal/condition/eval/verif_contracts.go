//go:build verif

// Contracts for package eval, checked by /verif/govc. Comment-only; compiled only under the build tag "verif".
package eval

// "A conditional tuple is satisfied exactly when its CEL expression evaluates to true over the request context merged
// with the tuple's stored context, where stored values take precedence ... a missing parameter makes the evaluation
// fail rather than succeed": an unconditioned tuple is satisfied; otherwise true is returned only as the verdict of
// this condition's Evaluate over [request context fields, then the tuple's stored context fields] (later maps win),
// with no error and no missing parameter; every failure returns false.
//@ func EvaluateTupleCondition(ctx, tupleKey, evaluableCondition, context) (met, err)
//@   property C25 C01
//@   option nosafety
//@   option defer_neutral
//@   ensures @unconditioned old(tupleKey.GetCondition().GetName()) == "" ==> met && err == nil
//@   ensures @neverTrueOnFailure err != nil ==> !met
//@   ensures @onlyVerdict met && old(tupleKey.GetCondition().GetName()) != "" ==> evaluated && evalErr == nil && nMissing == 0 && verdict
//@   ensures @rightCondition met && old(tupleKey.GetCondition().GetName()) != "" ==> evaluableCondition != nil && old(tupleKey.GetCondition().GetName() == evaluableCondition.GetName())
//@   ensures @verdictReturned err == nil && old(tupleKey.GetCondition().GetName()) != "" ==> evaluated && evalErr == nil && nMissing == 0 && met == verdict
//@   monitor merged
//@     ghost evaluated = false
//@     ghost evalErr error = nil
//@     ghost nMissing int = 0
//@     ghost verdict = false
//@     before call (*condition.EvaluableCondition).Evaluate args ec, _, ms : assert ec == evaluableCondition && ec != nil && len(ms) >= 1 && (context != nil ==> ms[0] == context.GetFields()) && (tupleKey.GetCondition().GetContext() != nil ==> len(ms) == 2 && ms[1] == tupleKey.GetCondition().GetContext().GetFields()) && (tupleKey.GetCondition().GetContext() == nil ==> len(ms) == 1)
//@     after call (*condition.EvaluableCondition).Evaluate returning r, e : evaluated = true ; evalErr = e ; nMissing = len(r.MissingParameters) ; verdict = r.ConditionMet
