//go:build verif

// Contracts for package types (condition parameter types), checked by /verif/govc. Comment-only; build tag "verif".
package types

// "Values are converted to the declared parameter types or the evaluation fails": a uint parameter accepts a value
// that already is a uint64, or a number / numeric string that is a non-negative integer; everything else is an error
//@ func numericTypeConverterFunc[uint64](value) (res, err)
//@   property C25 C18
//@   option nosafety
//@   ensures @alreadyTyped typeIs(value, "uint64") ==> err == nil && typeIs(res, "uint64") && as(res, "uint64") == as(value, "uint64")
//@   ensures @nonNegativeInteger err == nil && !typeIs(value, "uint64") ==> typeIs(res, "uint64") && intChecked && bfIsInt(num) && bfSign(num) >= 0
//@   ensures @wrongType !typeIs(value, "uint64") && !typeIs(value, "float64") && !typeIs(value, "string") ==> err != nil
//@   ensures @failClosed err != nil ==> res == nil
//@   monitor numeric
//@     ghost num *big.Float = nil
//@     ghost intChecked = false
//@     after call (*big.Float).IsInt args f returning b : num = f ; intChecked = b

// an int parameter accepts an int64, or a number / numeric string that is an integer
//@ func numericTypeConverterFunc[int64](value) (res, err)
//@   property C25 C18
//@   option nosafety
//@   ensures @alreadyTyped typeIs(value, "int64") ==> err == nil && typeIs(res, "int64") && as(res, "int64") == as(value, "int64")
//@   ensures @integer err == nil && !typeIs(value, "int64") ==> typeIs(res, "int64") && intChecked && bfIsInt(num)
//@   ensures @wrongType !typeIs(value, "int64") && !typeIs(value, "float64") && !typeIs(value, "string") ==> err != nil
//@   ensures @failClosed err != nil ==> res == nil
//@   monitor numeric
//@     ghost num *big.Float = nil
//@     ghost intChecked = false
//@     after call (*big.Float).IsInt args f returning b : num = f ; intChecked = b

// a map parameter is converted into a newly built map (never the caller's raw map), every item through the element
// type's converter; a non-map is an error
//@ func mapTypeConverterFunc$1(value) (res, err)
//@   property C25 C18
//@   option nosafety
//@   ensures @newMap err == nil ==> typeIs(value, "map[string]any") && typeIs(res, "map[string]any") && fresh(as(res, "map[string]any"))
//@   ensures @notAMap !typeIs(value, "map[string]any") ==> err != nil && res == nil

// a list parameter is converted into a newly built list of the same length
//@ func listTypeConverterFunc$1(value) (res, err)
//@   property C25 C18
//@   option nosafety
//@   ensures @newList err == nil ==> typeIs(value, "[]any") && typeIs(res, "[]any") && fresh(as(res, "[]any")) && len(as(res, "[]any")) == len(as(value, "[]any"))
//@   ensures @notAList !typeIs(value, "[]any") ==> err != nil && res == nil
