//go:build verif

// Contracts for package condition, checked by /verif/govc. Comment-only; compiled only under the build tag "verif".
// CEL itself (cel-go) is outside the verified set: what is proved is everything around the CEL call.
package condition

// the maps are merged left to right into a clone of the first (a later map overwrites an earlier one), the merged map
// is what gets converted to the declared parameter types, the typed values are what CEL is run on, the condition is
// met only if CEL's output converts to the Go bool true, and every declared parameter CEL could not resolve is
// reported as missing; any failure yields the empty result
//@ func (*EvaluableCondition).Evaluate(e, ctx, contextMaps) (res, err)
//@   property C25
//@   option nosafety
//@   option defer_neutral
//@   ensures @pipeline err == nil ==> cloned && cast && castErr == nil && activated && evaluatedCEL && celErr == nil
//@   ensures @missingReported err == nil ==> res.MissingParameters == missingParameters
//@   monitor order
//@     ghost cloned = false
//@     ghost merged ref = nil
//@     ghost cast = false
//@     ghost castErr error = nil
//@     ghost typed ref = nil
//@     ghost activated = false
//@     ghost activation iface = nil
//@     ghost evaluatedCEL = false
//@     ghost celErr error = nil
//@     before call maps.Clone args m : assert m == contextMaps[0] || contextMaps[0] == nil
//@     after call maps.Clone returning c : cloned = true ; merged = c
//@     before call maps.Copy args dst, src : assert cloned && dst == merged && rangeindex + 2 < len(contextMaps) && src == contextMaps[rangeindex + 2]
//@     before call (*condition.EvaluableCondition).CastContextToTypedParameters args _, m : assert cloned && m == merged
//@     after call (*condition.EvaluableCondition).CastContextToTypedParameters returning t, x : cast = true ; castErr = x ; typed = t
//@     before call (*cel.Env).PartialVars args _, v : assert cast && castErr == nil && typeIs(v, "map[string]any") && as(v, "map[string]any") == typed
//@     after call (*cel.Env).PartialVars returning a, x : activated = x == nil ; activation = a
//@     before call cel.Program.ContextEval args _, _, a : assert activated && a == activation
//@     after call cel.Program.ContextEval returning o, d, x : evaluatedCEL = true ; celErr = x
