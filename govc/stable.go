package main

// `option stable <param>`: the struct a pointer parameter refers to is not modified by callees (a frame assumption
// on request messages, listed in evidence). After a call with unknown effects the fields of *param keep their values.

import (
	"go/types"
	"strings"

	"golang.org/x/tools/go/ssa"
)

type stableRef struct {
	name string
	ref  *Term
	ty   types.Type
}

func (fg *FnGen) stableRefs() []stableRef {
	if fg.ct == nil || fg.ct.Options["stable"] == "" || fg.fn == nil {
		return nil
	}
	var out []stableRef
	for _, n := range strings.Fields(strings.ReplaceAll(fg.ct.Options["stable"], ",", " ")) {
		if v, ok := fg.paramEnv[n]; ok && v.Ty != nil {
			if _, _, isPtr := isStructPtr(v.Ty); isPtr {
				out = append(out, stableRef{n, v.T, v.Ty})
			}
		}
	}
	return out
}

func (fg *FnGen) havocCall(st *State, reach *Term) *State {
	st2 := fg.havocAll(st)
	fg.advanceClock() // the callee may have allocated objects that are now reachable through the heap
	fg.preserveAcrossHavoc(st, st2, reach, nil)
	return st2
}

// preserveAcrossHavoc: what an unknown callee (or, with li != nil, the unknown effects inside a loop body) cannot
// change: non-escaping local cells and the messages named by `option stable`. For a loop, cells and fields the loop
// body itself stores to are not preserved.
func (fg *FnGen) preserveAcrossHavoc(st, st2 *State, reach *Term, li *loopInfo) {
	storedRoots := map[ssa.Value]bool{}
	storesThroughParam := false
	if li != nil {
		for b := range li.body {
			for _, ins := range b.Instrs {
				s, ok := ins.(*ssa.Store)
				if !ok {
					continue
				}
				v := s.Addr
				for {
					switch a := v.(type) {
					case *ssa.FieldAddr:
						v = a.X
						continue
					case *ssa.IndexAddr:
						v = a.X
						continue
					}
					break
				}
				storedRoots[v] = true
				if _, isAlloc := v.(*ssa.Alloc); !isAlloc {
					storesThroughParam = true
				}
			}
		}
	}
	// stack-allocated locals (go/ssa: Alloc with Heap == false) do not escape: no callee can write them
	for _, sc := range fg.stackCells {
		if li != nil && (sc.src == nil || storedRoots[sc.src]) {
			continue
		}
		if _, ok := sc.ty.Underlying().(*types.Struct); ok {
			fg.preserveStruct(st, st2, nil, sc.ref, sc.ty, 0)
			continue
		}
		name, hs := fg.cellVar(sc.ty)
		fg.assume(Eq(Select(fg.lookup(st2, name, hs), sc.ref), Select(fg.lookup(st, name, hs), sc.ref)))
	}
	// allocations that have not escaped yet at this call: no escaping use can have executed before it
	if li == nil && fg.curIns != nil {
		for _, lc := range fg.lateCells {
			private := true
			for _, e := range lc.sites {
				if e == fg.curIns {
					private = false // handed over by this very call
					break
				}
				if mayPrecede(e, fg.curIns) {
					private = false
					break
				}
			}
			if !private {
				continue
			}
			if _, ok := lc.ty.Underlying().(*types.Struct); ok {
				fg.preserveStruct(st, st2, reach, lc.ref, lc.ty, 0)
				continue
			}
			name, hs := fg.cellVar(lc.ty)
			fg.assumeIf(reach, Eq(Select(fg.lookup(st2, name, hs), lc.ref), Select(fg.lookup(st, name, hs), lc.ref)))
		}
	}
	if li != nil && storesThroughParam {
		return
	}
	for _, sr := range fg.stableRefs() {
		_, nt, _ := isStructPtr(sr.ty)
		fg.preserveStruct(st, st2, reach, sr.ref, nt, 0)
		fg.g.useTrusted("callees do not modify the message a request parameter points to (option stable " + sr.name + " in " + fg.name + ")")
	}
}

// preserveStruct: every field of the object at ref — the fields of its embedded (by-value) structs included — has the
// same value in st2 as in st.
func (fg *FnGen) preserveStruct(st, st2 *State, reach *Term, ref *Term, ty types.Type, depth int) {
	stt, ok := ty.Underlying().(*types.Struct)
	if !ok || depth > 4 {
		return
	}
	for i := 0; i < stt.NumFields(); i++ {
		ft := stt.Field(i).Type()
		name, hs := fg.fieldVar(ty, stt, i)
		if _, isStruct := ft.Underlying().(*types.Struct); isStruct {
			fg.preserveStruct(st, st2, reach, fg.subRef(name, ref), ft, depth+1)
			continue
		}
		eq := Eq(Select(fg.lookup(st2, name, hs), ref), Select(fg.lookup(st, name, hs), ref))
		if reach != nil {
			fg.assumeIf(reach, eq)
		} else {
			fg.assume(eq)
		}
	}
}

// freshSubObjects: the embedded (by-value) struct fields of a freshly allocated object are themselves fresh objects.
func (fg *FnGen) freshSubObjects(ref *Term, ty types.Type, depth int) {
	stt, ok := ty.Underlying().(*types.Struct)
	if !ok || depth > 4 || fg.noDefs {
		return
	}
	for i := 0; i < stt.NumFields(); i++ {
		ft := stt.Field(i).Type()
		if _, isStruct := ft.Underlying().(*types.Struct); isStruct {
			name, _ := fg.fieldVar(ty, stt, i)
			sub := fg.subRef(name, ref)
			fg.assume(Gt(sub, fg.refLimit()))
			fg.freshSubObjects(sub, ft, depth+1)
		}
	}
}

// Allocation clock: fg.allocs holds one term that bounds from above every reference allocated so far. A callee may
// have allocated objects: after a call returning references the clock is bumped to a fresh bound that dominates the
// returned references; later allocations of this function are above it (hence distinct from everything returned).
func (fg *FnGen) bumpClock(res []*Term, sig *types.Signature) {
	if fg.noDefs || sig == nil {
		return
	}
	var refs []*Term
	for i, r := range res {
		if i >= sig.Results().Len() || hasBound(r) {
			continue
		}
		switch sig.Results().At(i).Type().Underlying().(type) {
		case *types.Pointer, *types.Map, *types.Chan:
			if r.Kind == KConst {
				refs = append(refs, r)
			}
		case *types.Slice:
			if r.Kind == KConst {
				refs = append(refs, SBase(r))
			}
		}
	}
	if len(refs) == 0 {
		return
	}
	c := fg.freshConst("clock", SInt)
	prev := fg.refLimit()
	if len(fg.allocs) > 0 {
		prev = fg.allocs[0]
	}
	fg.assume(Ge(c, prev))
	for _, r := range refs {
		fg.assume(Le(r, c))
	}
	fg.allocs = []*Term{c}
}

// subRef: reference of the by-value struct field `name` embedded in the object at base. The mapping is injective
// (distinct objects have distinct embedded sub-objects): recorded through an inverse function.
func (fg *FnGen) subRef(name string, base *Term) *Term {
	t := App("fld:"+name, SInt, base)
	if !fg.noDefs && !hasBound(base) {
		fg.assume(Eq(App("fldinv:"+name, SInt, t), base))
		// sub-objects of different fields are different objects (LastModified and LastChecked of one entry never alias)
		id, ok := fg.g.sentinels["fldtag:"+name]
		if !ok {
			id = 2000000 + len(fg.g.sentinels)
			fg.g.sentinels["fldtag:"+name] = id
		}
		fg.assume(Eq(App("fldtag", SInt, t), IntLit(int64(id))))
	}
	return t
}

// sliceContains: slices.Contains(s, v) as a deterministic function of the slice's contents (backing array, offset,
// length) and v. Its meaning (exists i. s[i] == v) is linked where needed by instantiating the definition.
func (fg *FnGen) sliceContains(s *Term, elem types.Type, v *Term, st *State) *Term {
	mn, ms, isB := fg.memVar(elem)
	mem := fg.lookup(st, mn, ms)
	if isB {
		return StrContains(Substr(Select(mem, SBase(s)), SOff(s), SLen(s)), StrFromCode(v))
	}
	fg.g.useTrusted("built-in contract: slices.Contains is a deterministic function of the slice contents and the value")
	return App("slices_contains_"+sanitize(v.Sort), SBool, Select(mem, SBase(s)), SOff(s), SLen(s), v)
}

// bumpClockForPhis: at a loop header the allocation clock is advanced to a fresh bound that dominates the references
// held by the loop-carried variables (they may have been allocated in earlier iterations).
func (fg *FnGen) bumpClockForPhis(fr *Frame, h *ssa.BasicBlock) {
	var refs []*Term
	for _, ins := range h.Instrs {
		phi, ok := ins.(*ssa.Phi)
		if !ok {
			break
		}
		t, ok := fr.vals[phi]
		if !ok {
			continue
		}
		switch phi.Type().Underlying().(type) {
		case *types.Pointer, *types.Map, *types.Chan:
			refs = append(refs, t)
		case *types.Slice:
			refs = append(refs, SBase(t))
		}
	}
	c := fg.freshConst("clock", SInt)
	prev := fg.refLimit()
	if len(fg.allocs) > 0 {
		prev = fg.allocs[0]
	}
	fg.assume(Ge(c, prev))
	for _, r := range refs {
		fg.assume(Le(r, c))
	}
	fg.allocs = []*Term{c}
}

// advanceClock introduces a fresh clock value not below the current one.
func (fg *FnGen) advanceClock() *Term {
	if fg.noDefs {
		return fg.currentClock()
	}
	c := fg.freshConst("clock", SInt)
	fg.assume(Ge(c, fg.currentClock()))
	fg.allocs = []*Term{c}
	return c
}

func (fg *FnGen) currentClock() *Term {
	if len(fg.allocs) > 0 {
		return fg.allocs[0]
	}
	return fg.refLimit()
}
