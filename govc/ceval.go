package main

// Evaluation of contract expressions to SMT terms.

import (
	"fmt"
	"go/types"
	"strings"

	"golang.org/x/tools/go/ssa"
)

type CVal struct {
	T     *Term
	Ty    types.Type
	Tuple []CVal
	IsNil bool
}

type Env struct {
	fg    *FnGen
	vars  map[string]CVal
	st    *State
	old   *Env
	reach *Term
	depth int
	pkg   *ssa.Package // package whose names are in scope (the contract's package)
}

func (e *Env) child() *Env {
	n := &Env{fg: e.fg, vars: map[string]CVal{}, st: e.st, old: e.old, reach: e.reach, depth: e.depth + 1, pkg: e.pkg}
	for k, v := range e.vars {
		n.vars[k] = v
	}
	return n
}

func (fg *FnGen) baseEnv(fr *Frame, st *State) *Env {
	env := &Env{fg: fg, vars: map[string]CVal{}, st: st}
	for k, v := range fg.paramEnv {
		env.vars[k] = v
	}
	if fg.initState != nil {
		env.old = &Env{fg: fg, vars: env.vars, st: fg.initState}
	}
	fg.bindGhosts(env, st)
	return env
}

func (e *Env) evalBool(ce *CE) (*Term, error) {
	v, err := e.eval(ce)
	if err != nil {
		return nil, err
	}
	if v.T == nil || v.T.Sort != SBool {
		return nil, fmt.Errorf("expression %s is not boolean", ce)
	}
	return v.T, nil
}

func sortOfDeclType(t string) string {
	switch t {
	case "", "int":
		return SInt
	case "string":
		return SString
	case "bool":
		return SBool
	case "bytes":
		return SString
	case "error", "iface":
		return SIface
	case "ref":
		return SInt
	case "intmap_string":
		return ArraySort(SInt, SString)
	case "intmap_bool":
		return ArraySort(SInt, SBool)
	case "intmap_int":
		return ArraySort(SInt, SInt)
	}
	return t
}

func (e *Env) eval(ce *CE) (CVal, error) {
	fg := e.fg
	switch ce.Kind {
	case "int":
		return CVal{T: IntLit(ce.Int), Ty: types.Typ[types.Int]}, nil
	case "str":
		return CVal{T: StrLit(ce.Str), Ty: types.Typ[types.String]}, nil
	case "bool":
		return CVal{T: BoolLit(ce.Name == "true"), Ty: types.Typ[types.Bool]}, nil
	case "nil":
		return CVal{IsNil: true}, nil
	case "ident":
		if v, ok := e.vars[ce.Name]; ok {
			return v, nil
		}
		if a, ok := e.vars["&"+ce.Name]; ok && a.Ty != nil {
			// a local that lives in a heap cell: its current value in this environment's state
			if pt, ok := a.Ty.Underlying().(*types.Pointer); ok {
				if stt, isStruct := pt.Elem().Underlying().(*types.Struct); isStruct {
					return CVal{T: fg.loadStruct(e.st, a.T, pt.Elem(), stt), Ty: pt.Elem()}, nil
				}
				name, hs := fg.cellVar(pt.Elem())
				return CVal{T: Select(fg.lookup(e.st, name, hs), a.T), Ty: pt.Elem()}, nil
			}
		}
		if v, ok := e.lookupPackageName(ce.Name); ok {
			return v, nil
		}
		return CVal{}, fmt.Errorf("unknown name %q", ce.Name)
	case "tuple":
		var out CVal
		for _, a := range ce.Args {
			v, err := e.eval(a)
			if err != nil {
				return CVal{}, err
			}
			out.Tuple = append(out.Tuple, v)
		}
		return out, nil
	case "unop":
		v, err := e.eval(ce.Args[0])
		if err != nil {
			return CVal{}, err
		}
		if ce.Op == "!" {
			if v.T == nil || v.T.Sort != SBool {
				return CVal{}, fmt.Errorf("! applied to non-boolean %s", ce.Args[0])
			}
			return CVal{T: Not(v.T), Ty: v.Ty}, nil
		}
		return CVal{T: Neg(v.T), Ty: v.Ty}, nil
	case "cond":
		c, err := e.evalBool(ce.Args[0])
		if err != nil {
			return CVal{}, err
		}
		a, err := e.eval(ce.Args[1])
		if err != nil {
			return CVal{}, err
		}
		b, err := e.eval(ce.Args[2])
		if err != nil {
			return CVal{}, err
		}
		a, b = unifyNil(a, b)
		if a.T == nil || b.T == nil || a.T.Sort != b.T.Sort {
			return CVal{}, fmt.Errorf("branches of %s have different sorts", ce)
		}
		return CVal{T: Ite(c, a.T, b.T), Ty: a.Ty}, nil
	case "quant":
		sub := e.child()
		var bvs []*Term
		for _, v := range ce.Vars {
			fg.fresh++
			bv := Bound(fmt.Sprintf("%s!q%d", v.Name, fg.fresh), sortOfDeclType(v.Type))
			bvs = append(bvs, bv)
			var ty types.Type
			switch v.Type {
			case "", "int":
				ty = types.Typ[types.Int]
			case "string":
				ty = types.Typ[types.String]
			case "bool":
				ty = types.Typ[types.Bool]
			}
			sub.vars[v.Name] = CVal{T: bv, Ty: ty}
		}
		if sub.old != nil {
			// bound variables are visible inside old(...) as well
			o := *sub.old
			o.vars = map[string]CVal{}
			for k, v := range sub.old.vars {
				o.vars[k] = v
			}
			for _, v := range ce.Vars {
				o.vars[v.Name] = sub.vars[v.Name]
			}
			sub.old = &o
		}
		body, err := sub.evalBool(ce.Args[0])
		if err != nil {
			return CVal{}, err
		}
		if ce.Op == "forall" {
			return CVal{T: Forall(bvs, body)}, nil
		}
		ex := Exists(bvs, body)
		if len(bvs) == 1 && bvs[0].Sort == SInt && len(fg.witnesses) > 0 {
			// (exists i. P(i)) is equivalent to (P(w1) or ... or exists i. P(i)): candidate witnesses (loop indices)
			// are offered to the solver, which cannot guess them by E-matching through arithmetic
			alts := []*Term{}
			for _, w := range fg.witnesses {
				alts = append(alts, Subst(body, map[string]*Term{bvs[0].Op: w}))
			}
			alts = append(alts, ex)
			return CVal{T: Or(alts...)}, nil
		}
		return CVal{T: ex}, nil
	case "binop":
		return e.binop(ce)
	case "field":
		return e.field(ce)
	case "index":
		x, err := e.eval(ce.Args[0])
		if err != nil {
			return CVal{}, err
		}
		i, err := e.eval(ce.Args[1])
		if err != nil {
			return CVal{}, err
		}
		return e.indexVal(x, i)
	case "slice":
		x, err := e.eval(ce.Args[0])
		if err != nil {
			return CVal{}, err
		}
		if x.T == nil {
			return CVal{}, fmt.Errorf("cannot slice %s", ce.Args[0])
		}
		if x.T.Sort == SSlice && x.Ty != nil && isByteSlice(x.Ty) {
			x = CVal{T: fg.byteView(x.T, e.st, nil), Ty: types.Typ[types.String]}
		}
		if x.T.Sort != SString {
			return CVal{}, fmt.Errorf("slicing is only supported on strings/bytes in contracts: %s", ce)
		}
		lo := IntLit(0)
		if ce.Args[1] != nil {
			v, err := e.eval(ce.Args[1])
			if err != nil {
				return CVal{}, err
			}
			lo = v.T
		}
		hi := StrLen(x.T)
		if ce.Args[2] != nil {
			v, err := e.eval(ce.Args[2])
			if err != nil {
				return CVal{}, err
			}
			hi = v.T
		}
		return CVal{T: Substr(x.T, lo, Sub(hi, lo)), Ty: types.Typ[types.String]}, nil
	case "call":
		return e.call(ce)
	}
	return CVal{}, fmt.Errorf("cannot evaluate %s", ce)
}

func unifyNil(a, b CVal) (CVal, CVal) {
	if a.IsNil && b.T != nil {
		a = CVal{T: nilOfSort(b.T.Sort), Ty: b.Ty}
	}
	if b.IsNil && a.T != nil {
		b = CVal{T: nilOfSort(a.T.Sort), Ty: a.Ty}
	}
	return a, b
}

func nilOfSort(s string) *Term {
	switch s {
	case SInt:
		return IntLit(0)
	case SIface:
		return nilIface
	case SSlice:
		return nilSlice
	}
	return Const("zero_"+sanitize(s), s)
}

func (e *Env) indexVal(x, i CVal) (CVal, error) {
	fg := e.fg
	if x.T == nil || i.T == nil {
		return CVal{}, fmt.Errorf("bad index expression")
	}
	switch {
	case x.T.Sort == SString:
		return CVal{T: StrCode(x.T, i.T), Ty: types.Typ[types.Uint8]}, nil
	case x.T.Sort == SSlice && x.Ty != nil:
		sl, ok := x.Ty.Underlying().(*types.Slice)
		if !ok {
			return CVal{}, fmt.Errorf("index of non-slice")
		}
		name, srt, isB := fg.memVar(sl.Elem())
		mem := fg.lookup(e.st, name, srt)
		if isB {
			return CVal{T: StrCode(Select(mem, SBase(x.T)), Add(SOff(x.T), i.T)), Ty: sl.Elem()}, nil
		}
		return CVal{T: Select(Select(mem, SBase(x.T)), Add(SOff(x.T), i.T)), Ty: sl.Elem()}, nil
	case strings.HasPrefix(x.T.Sort, "(Array "):
		return CVal{T: Select(x.T, i.T)}, nil
	case x.T.Sort == SInt && x.Ty != nil:
		if mt, ok := x.Ty.Underlying().(*types.Map); ok {
			dom, val := fg.mapVars(mt, e.st)
			in := And(Neq(x.T, IntLit(0)), Select(Select(dom, x.T), i.T))
			r := Ite(in, Select(Select(val, x.T), i.T), fg.g.ti.zeroOf(mt.Elem()))
			if _, isSlice := mt.Elem().Underlying().(*types.Slice); isSlice && !hasBound(r) && !fg.noDefs {
				// a slice stored in a map is a well-formed slice header
				fg.assumeValid(r, mt.Elem(), True)
			}
			return CVal{T: r, Ty: mt.Elem()}, nil
		}
	}
	return CVal{}, fmt.Errorf("cannot index value of sort %s", x.T.Sort)
}

func (e *Env) field(ce *CE) (CVal, error) {
	fg := e.fg
	// package-qualified name: pkg.Name
	if id := ce.Args[0]; id.Kind == "ident" {
		if _, isVar := e.vars[id.Name]; !isVar {
			if v, ok := e.lookupQualified(id.Name, ce.Name); ok {
				return v, nil
			}
		}
	}
	x, err := e.eval(ce.Args[0])
	if err != nil {
		return CVal{}, err
	}
	if len(x.Tuple) > 0 {
		var idx int
		if _, err := fmt.Sscanf(ce.Name, "%d", &idx); err == nil && idx < len(x.Tuple) {
			return x.Tuple[idx], nil
		}
	}
	if x.Ty == nil {
		return CVal{}, fmt.Errorf("field %s of value without Go type (%s)", ce.Name, ce.Args[0])
	}
	// pseudo-fields
	if x.T != nil && x.T.Sort == SIface {
		switch ce.Name {
		case "$tag":
			return CVal{T: ITag(x.T), Ty: types.Typ[types.Int]}, nil
		case "$val":
			return CVal{T: IVal(x.T), Ty: types.Typ[types.Int]}, nil
		}
	}
	if stt, nt, ok := isStructPtr(x.Ty); ok {
		if ce.Name == "$content" && fg.g.ti.structName(nt, stt) == "strings.Builder" {
			return CVal{T: Select(fg.lookup(e.st, sbVar, sbSort), x.T), Ty: types.Typ[types.String]}, nil
		}
		idx, path := findField(stt, ce.Name)
		if idx < 0 {
			return CVal{}, fmt.Errorf("type %s has no field %s", x.Ty, ce.Name)
		}
		ref := x.T
		cur, curT := stt, nt
		for _, pi := range path {
			// embedded struct hop
			name, _ := fg.fieldVar(curT, cur, pi)
			ft := cur.Field(pi).Type()
			if inner, ok := ft.Underlying().(*types.Struct); ok {
				ref = fg.subRef(name, ref)
				cur, curT = inner, ft
			} else if innerS, innerT, ok := isStructPtr(ft); ok {
				hs := ArraySort(SInt, SInt)
				ref = Select(fg.lookup(e.st, name, hs), ref)
				cur, curT = innerS, innerT
			}
		}
		name, hs := fg.fieldVar(curT, cur, idx)
		ft := cur.Field(idx).Type()
		if inner, ok := ft.Underlying().(*types.Struct); ok {
			return CVal{T: fg.loadStruct(e.st, fg.subRef(name, ref), ft, inner), Ty: ft}, nil
		}
		return CVal{T: Select(fg.lookup(e.st, name, hs), ref), Ty: ft}, nil
	}
	if stt, ok := x.Ty.Underlying().(*types.Struct); ok {
		idx, path := findField(stt, ce.Name)
		if idx < 0 || len(path) > 0 {
			return CVal{}, fmt.Errorf("type %s has no direct field %s", x.Ty, ce.Name)
		}
		srt := fg.g.ti.structSort(x.Ty, stt)
		ft := stt.Field(idx).Type()
		return CVal{T: Sel(fmt.Sprintf("%s.%s", srt, ce.Name), fg.g.ti.sortOf(ft), idx, x.T), Ty: ft}, nil
	}
	return CVal{}, fmt.Errorf("field %s of non-struct %s", ce.Name, x.Ty)
}

// findField finds a (possibly promoted) field; path lists the embedded hops.
func findField(st *types.Struct, name string) (int, []int) {
	for i := 0; i < st.NumFields(); i++ {
		if st.Field(i).Name() == name {
			return i, nil
		}
	}
	for i := 0; i < st.NumFields(); i++ {
		f := st.Field(i)
		if !f.Embedded() {
			continue
		}
		var inner *types.Struct
		if s, ok := f.Type().Underlying().(*types.Struct); ok {
			inner = s
		} else if s, _, ok := isStructPtr(f.Type()); ok {
			inner = s
		}
		if inner != nil {
			if idx, p := findField(inner, name); idx >= 0 {
				return idx, append([]int{i}, p...)
			}
		}
	}
	return -1, nil
}

func (e *Env) binop(ce *CE) (CVal, error) {
	switch ce.Op {
	case "&&", "||", "==>", "<==>":
		a, err := e.evalBool(ce.Args[0])
		if err != nil {
			return CVal{}, err
		}
		b, err := e.evalBool(ce.Args[1])
		if err != nil {
			return CVal{}, err
		}
		switch ce.Op {
		case "&&":
			return CVal{T: And(a, b)}, nil
		case "||":
			return CVal{T: Or(a, b)}, nil
		case "==>":
			return CVal{T: Implies(a, b)}, nil
		}
		return CVal{T: Iff(a, b)}, nil
	}
	a, err := e.eval(ce.Args[0])
	if err != nil {
		return CVal{}, err
	}
	b, err := e.eval(ce.Args[1])
	if err != nil {
		return CVal{}, err
	}
	if ce.Op == "==" || ce.Op == "!=" {
		t, err := e.equal(a, b, ce)
		if err != nil {
			return CVal{}, err
		}
		if ce.Op == "!=" {
			t = Not(t)
		}
		return CVal{T: t}, nil
	}
	if a.T == nil || b.T == nil {
		return CVal{}, fmt.Errorf("bad operands in %s", ce)
	}
	if a.T.Sort == SSlice && a.Ty != nil && isByteSlice(a.Ty) {
		a = CVal{T: e.fg.byteView(a.T, e.st, nil), Ty: types.Typ[types.String]}
	}
	if b.T.Sort == SSlice && b.Ty != nil && isByteSlice(b.Ty) {
		b = CVal{T: e.fg.byteView(b.T, e.st, nil), Ty: types.Typ[types.String]}
	}
	if a.T.Sort != b.T.Sort {
		return CVal{}, fmt.Errorf("operands of %s have sorts %s and %s", ce, a.T.Sort, b.T.Sort)
	}
	isStr := a.T.Sort == SString
	switch ce.Op {
	case "+":
		if isStr {
			return CVal{T: StrCat(a.T, b.T), Ty: a.Ty}, nil
		}
		return CVal{T: Add(a.T, b.T), Ty: a.Ty}, nil
	case "-":
		return CVal{T: Sub(a.T, b.T), Ty: a.Ty}, nil
	case "*":
		return CVal{T: Mul(a.T, b.T), Ty: a.Ty}, nil
	case "/":
		return CVal{T: App("div", SInt, a.T, b.T), Ty: a.Ty}, nil
	case "%":
		return CVal{T: App("mod", SInt, a.T, b.T), Ty: a.Ty}, nil
	case "<":
		if isStr {
			return CVal{T: StrLtT(a.T, b.T)}, nil
		}
		return CVal{T: Lt(a.T, b.T)}, nil
	case "<=":
		if isStr {
			return CVal{T: StrLeT(a.T, b.T)}, nil
		}
		return CVal{T: Le(a.T, b.T)}, nil
	case ">":
		if isStr {
			return CVal{T: StrLtT(b.T, a.T)}, nil
		}
		return CVal{T: Gt(a.T, b.T)}, nil
	case ">=":
		if isStr {
			return CVal{T: StrLeT(b.T, a.T)}, nil
		}
		return CVal{T: Ge(a.T, b.T)}, nil
	}
	return CVal{}, fmt.Errorf("unknown operator %s", ce.Op)
}

func (e *Env) equal(a, b CVal, ce *CE) (*Term, error) {
	if len(a.Tuple) > 0 || len(b.Tuple) > 0 {
		if len(a.Tuple) != len(b.Tuple) {
			return nil, fmt.Errorf("tuple arity mismatch in %s", ce)
		}
		var cs []*Term
		for i := range a.Tuple {
			t, err := e.equal(a.Tuple[i], b.Tuple[i], ce)
			if err != nil {
				return nil, err
			}
			cs = append(cs, t)
		}
		return And(cs...), nil
	}
	if a.IsNil && b.IsNil {
		return True, nil
	}
	if a.IsNil {
		a, b = b, a
	}
	if b.IsNil {
		if a.T == nil {
			return nil, fmt.Errorf("bad nil comparison in %s", ce)
		}
		switch a.T.Sort {
		case SInt:
			return Eq(a.T, IntLit(0)), nil
		case SIface:
			return Eq(ITag(a.T), IntLit(0)), nil
		case SSlice:
			return Eq(SBase(a.T), IntLit(0)), nil
		}
		return nil, fmt.Errorf("nil comparison on sort %s in %s", a.T.Sort, ce)
	}
	if a.T == nil || b.T == nil {
		return nil, fmt.Errorf("bad operands in %s", ce)
	}
	// bytes vs string
	if a.T.Sort == SSlice && b.T.Sort == SString && a.Ty != nil && isByteSlice(a.Ty) {
		a = CVal{T: e.fg.byteView(a.T, e.st, nil)}
	}
	if b.T.Sort == SSlice && a.T.Sort == SString && b.Ty != nil && isByteSlice(b.Ty) {
		b = CVal{T: e.fg.byteView(b.T, e.st, nil)}
	}
	if a.T.Sort != b.T.Sort {
		return nil, fmt.Errorf("operands of %s have sorts %s and %s", ce, a.T.Sort, b.T.Sort)
	}
	return Eq(a.T, b.T), nil
}

func (e *Env) strArg(ce *CE) (*Term, error) {
	v, err := e.eval(ce)
	if err != nil {
		return nil, err
	}
	if v.T == nil {
		return nil, fmt.Errorf("bad string argument %s", ce)
	}
	if v.T.Sort == SSlice && v.Ty != nil && isByteSlice(v.Ty) {
		return e.fg.byteView(v.T, e.st, nil), nil
	}
	if v.T.Sort != SString {
		return nil, fmt.Errorf("argument %s is not a string", ce)
	}
	return v.T, nil
}

func (e *Env) charArg(ce *CE) (*Term, error) {
	v, err := e.eval(ce)
	if err != nil {
		return nil, err
	}
	if v.T == nil {
		return nil, fmt.Errorf("bad char argument")
	}
	if v.T.Sort == SString {
		return v.T, nil
	}
	return StrFromCode(v.T), nil
}

func (e *Env) call(ce *CE) (CVal, error) {
	fg := e.fg
	fn := ce.Args[0]
	args := ce.Args[1:]
	name := ""
	if fn.Kind == "ident" {
		name = fn.Name
	} else if fn.Kind == "field" && fn.Args[0].Kind == "ident" {
		name = fn.Args[0].Name + "." + fn.Name
	}
	S := types.Typ[types.String]
	I := types.Typ[types.Int]
	switch name {
	case "elemAddr":
		// elemAddr(s, i): the address of element i of slice s (what &s[i] evaluates to in the code)
		sv, err := e.eval(args[0])
		if err != nil {
			return CVal{}, err
		}
		iv, err := e.eval(args[1])
		if err != nil {
			return CVal{}, err
		}
		if sv.T == nil || sv.T.Sort != SSlice || iv.T == nil {
			return CVal{}, fmt.Errorf("elemAddr needs a slice and an index")
		}
		return CVal{T: App("elemaddr", SInt, SBase(sv.T), Add(SOff(sv.T), iv.T))}, nil
	case "ufRef":
		// ufRef("(*pkg.T).M", f, args...): like ufString for a pointer / map / channel result
		if len(args) < 2 || args[0].Kind != "str" {
			return CVal{}, fmt.Errorf("ufRef needs a literal callee name and the callee value")
		}
		var ts []*Term
		for _, a := range args[1:] {
			v, err := e.eval(a)
			if err != nil {
				return CVal{}, err
			}
			if v.IsNil {
				v.T = IntLit(0)
			}
			if v.T == nil {
				return CVal{}, fmt.Errorf("bad ufRef argument %s", a)
			}
			ts = append(ts, v.T)
		}
		return CVal{T: App("uf:"+sanitize(args[0].Str)+"#0", SInt, ts...)}, nil
	case "ufString":
		// ufString("field:mapper", f, args...): the string result of a call on the effects list as `function`, as a term
		if len(args) < 2 || args[0].Kind != "str" {
			return CVal{}, fmt.Errorf("ufString needs a literal callee name and the callee value")
		}
		var ts []*Term
		for _, a := range args[1:] {
			v, err := e.eval(a)
			if err != nil {
				return CVal{}, err
			}
			if v.IsNil {
				v.T = IntLit(0)
			}
			if v.T == nil {
				return CVal{}, fmt.Errorf("bad ufString argument %s", a)
			}
			ts = append(ts, v.T)
		}
		return CVal{T: App("uf:"+sanitize(args[0].Str)+"#0", SString, ts...), Ty: types.Typ[types.String]}, nil
	case "upd":
		// upd(a, i, v): the ghost array a with index i set to v
		a, err := e.eval(args[0])
		if err != nil {
			return CVal{}, err
		}
		i, err := e.eval(args[1])
		if err != nil {
			return CVal{}, err
		}
		v, err := e.eval(args[2])
		if err != nil {
			return CVal{}, err
		}
		if a.T == nil || i.T == nil || v.T == nil || !strings.HasPrefix(a.T.Sort, "(Array ") {
			return CVal{}, fmt.Errorf("upd needs a ghost array")
		}
		return CVal{T: Store(a.T, i.T, v.T)}, nil
	case "pre":
		// in an "after call" rule: the value of the expression in the state just before the call
		if fg.preCallState == nil {
			return e.eval(args[0])
		}
		pe := &Env{fg: fg, vars: e.vars, st: fg.preCallState, old: e.old}
		return pe.eval(args[0])
	case "old":
		if e.old == nil {
			return e.eval(args[0])
		}
		return e.old.eval(args[0])
	case "len":
		v, err := e.eval(args[0])
		if err != nil {
			return CVal{}, err
		}
		switch {
		case v.T != nil && v.T.Sort == SString:
			return CVal{T: StrLen(v.T), Ty: I}, nil
		case v.T != nil && v.T.Sort == SSlice:
			return CVal{T: SLen(v.T), Ty: I}, nil
		case v.T != nil && v.T.Sort == SInt && v.Ty != nil:
			if mt, ok := v.Ty.Underlying().(*types.Map); ok {
				dom, _ := fg.mapVars(mt, e.st)
				return CVal{T: App("maplen_"+sanitize(fg.g.ti.sortOf(mt.Key())), SInt, Select(dom, v.T)), Ty: I}, nil
			}
		}
		return CVal{}, fmt.Errorf("len of %s", args[0])
	case "cap":
		v, err := e.eval(args[0])
		if err != nil {
			return CVal{}, err
		}
		return CVal{T: SCap(v.T), Ty: I}, nil
	case "fresh":
		// fresh(x): the slice's backing array / the pointed-to object was allocated by the function under verification
		v, err := e.eval(args[0])
		if err != nil {
			return CVal{}, err
		}
		if v.T == nil {
			return CVal{}, fmt.Errorf("fresh of %s", args[0])
		}
		if v.T.Sort == SSlice {
			return CVal{T: Gt(SBase(v.T), fg.refLimit())}, nil
		}
		if v.T.Sort == SInt {
			return CVal{T: Gt(v.T, fg.refLimit())}, nil
		}
		return CVal{}, fmt.Errorf("fresh of non-reference %s", args[0])
	case "base":
		// identity of a slice's backing array; base(a) != base(b) states that a and b do not share storage
		v, err := e.eval(args[0])
		if err != nil {
			return CVal{}, err
		}
		if v.T == nil || v.T.Sort != SSlice {
			return CVal{}, fmt.Errorf("base of non-slice %s", args[0])
		}
		return CVal{T: SBase(v.T), Ty: I}, nil
	case "bytes", "str":
		s, err := e.strArg(args[0])
		if err != nil {
			return CVal{}, err
		}
		return CVal{T: s, Ty: S}, nil
	case "index", "lastIndex", "containsByte", "contains", "hasPrefix", "hasSuffix":
		s, err := e.strArg(args[0])
		if err != nil {
			return CVal{}, err
		}
		var c *Term
		if name == "contains" || name == "hasPrefix" || name == "hasSuffix" {
			c, err = e.strArg(args[1])
		} else {
			c, err = e.charArg(args[1])
		}
		if err != nil {
			return CVal{}, err
		}
		switch name {
		case "index":
			return CVal{T: fg.specIndex(s, c), Ty: I}, nil
		case "lastIndex":
			return CVal{T: fg.specLastIndex(s, c), Ty: I}, nil
		case "hasPrefix":
			return CVal{T: StrPrefixOf(c, s)}, nil
		case "hasSuffix":
			return CVal{T: StrSuffixOf(c, s)}, nil
		}
		return CVal{T: StrContains(s, c)}, nil
	case "substr":
		s, err := e.strArg(args[0])
		if err != nil {
			return CVal{}, err
		}
		a, err := e.eval(args[1])
		if err != nil {
			return CVal{}, err
		}
		b, err := e.eval(args[2])
		if err != nil {
			return CVal{}, err
		}
		return CVal{T: Substr(s, a.T, Sub(b.T, a.T)), Ty: S}, nil
	case "chr":
		a, err := e.eval(args[0])
		if err != nil {
			return CVal{}, err
		}
		return CVal{T: StrFromCode(a.T), Ty: S}, nil
	case "itoa":
		a, err := e.eval(args[0])
		if err != nil {
			return CVal{}, err
		}
		return CVal{T: Ite(Ge(a.T, IntLit(0)), App("str.from_int", SString, a.T), StrCat(StrLit("-"), App("str.from_int", SString, Neg(a.T)))), Ty: S}, nil
	case "min", "max":
		a, err := e.eval(args[0])
		if err != nil {
			return CVal{}, err
		}
		b, err := e.eval(args[1])
		if err != nil {
			return CVal{}, err
		}
		if name == "min" {
			return CVal{T: Ite(Le(a.T, b.T), a.T, b.T), Ty: I}, nil
		}
		return CVal{T: Ite(Ge(a.T, b.T), a.T, b.T), Ty: I}, nil
	case "isNil":
		a, err := e.eval(args[0])
		if err != nil {
			return CVal{}, err
		}
		t, err := e.equal(a, CVal{IsNil: true}, ce)
		return CVal{T: t}, err
	case "ts":
		a, err := e.eval(args[0])
		if err != nil {
			return CVal{}, err
		}
		return CVal{T: fg.timePoint(a.T), Ty: I}, nil
	case "errIs":
		a, err := e.eval(args[0])
		if err != nil {
			return CVal{}, err
		}
		b, err := e.eval(args[1])
		if err != nil {
			return CVal{}, err
		}
		return CVal{T: App("errIs", SBool, a.T, b.T)}, nil
	case "typeIs":
		a, err := e.eval(args[0])
		if err != nil {
			return CVal{}, err
		}
		ty, err := e.resolveType(args[1])
		if err != nil {
			return CVal{}, err
		}
		return CVal{T: Eq(ITag(a.T), IntLit(int64(fg.g.ti.typeID(ty))))}, nil
	case "as":
		// as(x, T): payload of interface x viewed as T (pointer types)
		a, err := e.eval(args[0])
		if err != nil {
			return CVal{}, err
		}
		ty, err := e.resolveType(args[1])
		if err != nil {
			return CVal{}, err
		}
		switch ty.Underlying().(type) {
		case *types.Pointer, *types.Map, *types.Chan, *types.Signature:
			return CVal{T: IVal(a.T), Ty: ty}, nil
		}
		// value payloads are boxed: the interface carries a box id
		srt := fg.g.ti.sortOf(ty)
		return CVal{T: App("unbox_"+sanitize(srt), srt, IVal(a.T)), Ty: ty}, nil
	case "sliceContains":
		// the same deterministic predicate the code's slices.Contains call is modelled by
		sv, err := e.eval(args[0])
		if err != nil {
			return CVal{}, err
		}
		v, err := e.eval(args[1])
		if err != nil {
			return CVal{}, err
		}
		if sv.T == nil || sv.Ty == nil || v.T == nil {
			return CVal{}, fmt.Errorf("bad sliceContains arguments")
		}
		sl, ok := sv.Ty.Underlying().(*types.Slice)
		if !ok {
			return CVal{}, fmt.Errorf("sliceContains on non-slice")
		}
		return CVal{T: fg.sliceContains(sv.T, sl.Elem(), v.T, e.st)}, nil
	case "gmap", "gmapUpdated":
		// ghost map attached to an object (e.g. the content of an InMemoryCache): GM:<name> : ref -> key -> interface value
		if args[0].Kind != "str" {
			return CVal{}, fmt.Errorf("gmap needs a literal name")
		}
		obj, err := e.eval(args[1])
		if err != nil {
			return CVal{}, err
		}
		key, err := e.eval(args[2])
		if err != nil {
			return CVal{}, err
		}
		if obj.T == nil || key.T == nil {
			return CVal{}, fmt.Errorf("bad gmap arguments")
		}
		idx := obj.T
		if idx.Sort == SIface {
			idx = IVal(idx)
		}
		vname := "GM:" + args[0].Str
		vsort := ArraySort(SInt, ArraySort(key.T.Sort, SIface))
		cur := fg.lookup(e.st, vname, vsort)
		if name == "gmap" {
			return CVal{T: Select(Select(cur, idx), key.T), Ty: types.NewInterfaceType(nil, nil)}, nil
		}
		val, err := e.eval(args[3])
		if err != nil {
			return CVal{}, err
		}
		if val.IsNil {
			val.T = nilIface
		}
		if val.T == nil || val.T.Sort != SIface || e.old == nil {
			return CVal{}, fmt.Errorf("gmapUpdated needs an interface value and an old state")
		}
		old := fg.lookup(e.old.st, vname, vsort)
		return CVal{T: Eq(cur, Store(old, idx, Store(Select(old, idx), key.T, val.T)))}, nil
	case "addrOf":
		// addrOf(x): the heap cell in which the (captured / address-taken) local x lives
		if args[0].Kind == "ident" {
			if a, ok := e.vars["&"+args[0].Name]; ok {
				return a, nil
			}
		}
		return CVal{}, fmt.Errorf("addrOf: %s does not live in a cell", args[0])
	case "deref":
		// deref(p): current content of the cell p points to (free variables of closures are such pointers)
		a, err := e.eval(args[0])
		if err != nil {
			return CVal{}, err
		}
		if a.T == nil || a.Ty == nil {
			return CVal{}, fmt.Errorf("deref of %s", args[0])
		}
		pt, ok := a.Ty.Underlying().(*types.Pointer)
		if !ok {
			return CVal{}, fmt.Errorf("deref of non-pointer %s", args[0])
		}
		if stt, isStruct := pt.Elem().Underlying().(*types.Struct); isStruct {
			return CVal{T: fg.loadStruct(e.st, a.T, pt.Elem(), stt), Ty: pt.Elem()}, nil
		}
		cn, hs := fg.cellVar(pt.Elem())
		return CVal{T: Select(fg.lookup(e.st, cn, hs), a.T), Ty: pt.Elem()}, nil
	case "closureOf":
		// closureOf(f, "Outer$1"): f is a closure of the function literal whose (short) name ends with the given text
		f, err := e.eval(args[0])
		if err != nil {
			return CVal{}, err
		}
		if f.T == nil || f.T.Sort != SInt || args[1].Kind != "str" {
			return CVal{}, fmt.Errorf("closureOf needs a function value and a literal name")
		}
		return CVal{T: StrSuffixOf(StrLit(args[1].Str), App("closureFn", SString, f.T))}, nil
	case "closureBinds":
		// closureBinds(f, i, v): the i-th captured variable (go/ssa binding order) of closure f is v
		f, err := e.eval(args[0])
		if err != nil {
			return CVal{}, err
		}
		v, err := e.eval(args[2])
		if err != nil {
			return CVal{}, err
		}
		if f.T == nil || v.T == nil || args[1].Kind != "int" {
			return CVal{}, fmt.Errorf("bad closureBinds arguments")
		}
		return CVal{T: Eq(App(fmt.Sprintf("closureBind%d_%s", args[1].Int, sanitize(v.T.Sort)), v.T.Sort, f.T), v.T)}, nil
	case "inDom":
		m, err := e.eval(args[0])
		if err != nil {
			return CVal{}, err
		}
		k, err := e.eval(args[1])
		if err != nil {
			return CVal{}, err
		}
		mt, ok := m.Ty.Underlying().(*types.Map)
		if !ok {
			return CVal{}, fmt.Errorf("inDom on non-map")
		}
		dom, _ := fg.mapVars(mt, e.st)
		return CVal{T: And(Neq(m.T, IntLit(0)), Select(Select(dom, m.T), k.T))}, nil
	}
	// spec function
	if sp, ok := fg.g.specs[name]; ok {
		if len(args) != len(sp.ParamNames) {
			return CVal{}, fmt.Errorf("spec %s expects %d arguments", name, len(sp.ParamNames))
		}
		if e.depth > 40 {
			return CVal{}, fmt.Errorf("spec expansion too deep in %s", name)
		}
		if sp.Kind == "uninterp" {
			var ts []*Term
			for i, a := range args {
				var t *Term
				if sp.ParamTypes[i] == "string" || sp.ParamTypes[i] == "bytes" {
					s, err := e.strArg(a)
					if err != nil {
						return CVal{}, err
					}
					t = s
				} else {
					v, err := e.eval(a)
					if err != nil {
						return CVal{}, err
					}
					if v.IsNil {
						v.T = nilOfSort(sortOfDeclType(sp.ParamTypes[i]))
					}
					t = v.T
				}
				if t == nil || t.Sort != sortOfDeclType(sp.ParamTypes[i]) {
					return CVal{}, fmt.Errorf("argument %d of %s has the wrong sort", i, name)
				}
				ts = append(ts, t)
			}
			var ty types.Type
			switch sp.SpecSort {
			case "string":
				ty = types.Typ[types.String]
			case "int":
				ty = types.Typ[types.Int]
			}
			return CVal{T: App("uf_"+name, sortOfDeclType(sp.SpecSort), ts...), Ty: ty}, nil
		}
		sub := &Env{fg: fg, vars: map[string]CVal{}, st: e.st, old: e.old, reach: e.reach, depth: e.depth + 1, pkg: e.pkg}
		for i, pn := range sp.ParamNames {
			v, err := e.eval(args[i])
			if err != nil {
				return CVal{}, err
			}
			if sp.ParamTypes[i] == "string" || sp.ParamTypes[i] == "bytes" {
				if v.T != nil && v.T.Sort == SSlice && v.Ty != nil && isByteSlice(v.Ty) {
					v = CVal{T: fg.byteView(v.T, e.st, nil), Ty: types.Typ[types.String]}
				}
			}
			sub.vars[pn] = v
		}
		return sub.eval(sp.SpecBody)
	}
	// pure Go function / method of the package under verification: inline it
	if v, ok, err := e.callGo(ce, name, fn, args); ok {
		return v, err
	}
	return CVal{}, fmt.Errorf("unknown function %q in contract", name)
}

// callGo evaluates a call to a real (inlineable, loop-free) Go function or getter method from inside a contract.
func (e *Env) callGo(ce *CE, name string, fn *CE, args []*CE) (CVal, bool, error) {
	fg := e.fg
	var target *ssa.Function
	var argv []CVal
	if fn.Kind == "field" {
		// method call x.M(...) – receiver must have a Go type
		if _, isVar := e.vars[rootIdent(fn.Args[0])]; isVar || fn.Args[0].Kind != "ident" {
			recv, err := e.eval(fn.Args[0])
			if err != nil {
				return CVal{}, true, err
			}
			if recv.Ty != nil {
				ms := fg.g.prog.MethodSets.MethodSet(recv.Ty)
				for i := 0; i < ms.Len(); i++ {
					if ms.At(i).Obj().Name() == fn.Name {
						target = fg.g.prog.MethodValue(ms.At(i))
					}
				}
				if target == nil {
					return CVal{}, true, fmt.Errorf("no method %s on %s", fn.Name, recv.Ty)
				}
				argv = append(argv, recv)
			}
		}
	}
	if target == nil && fn.Kind == "ident" && e.pkg != nil {
		target = e.pkg.Func(name)
	}
	if target == nil && fn.Kind == "ident" && fg.fn != nil && fg.fn.Pkg != nil {
		target = fg.fn.Pkg.Func(name)
	}
	if target == nil && fn.Kind == "ident" && fg.ct != nil {
		if p := fg.g.pkgByPath[fg.ct.Pkg]; p != nil {
			target = p.Func(name)
		}
	}
	if target == nil && fn.Kind == "field" && fn.Args[0].Kind == "ident" {
		if p := fg.g.pkgByName(fn.Args[0].Name); p != nil {
			target = p.Func(fn.Name)
		}
	}
	if target == nil {
		return CVal{}, false, nil
	}
	for _, a := range args {
		v, err := e.eval(a)
		if err != nil {
			return CVal{}, true, err
		}
		argv = append(argv, v)
	}
	if !fg.inlineable(target, 0) && fg.g.contracts[target.String()] == nil {
		return CVal{}, true, fmt.Errorf("function %s is neither inlineable nor under contract; cannot be used in a contract", target)
	}
	var terms []*Term
	var tys []types.Type
	for i, v := range argv {
		if v.IsNil && i < len(target.Params) {
			v = CVal{T: fg.g.ti.zeroOf(target.Params[i].Type()), Ty: target.Params[i].Type()}
		}
		if v.T == nil {
			return CVal{}, true, fmt.Errorf("bad argument %d to %s", i, name)
		}
		terms = append(terms, v.T)
		tys = append(tys, v.Ty)
	}
	// run with obligations and assumptions discarded? assumptions (definitions) are needed; obligations are dropped.
	savedObls := len(fg.obls)
	savedAssumes := len(fg.assumes)
	bound := false
	for _, t := range terms {
		if hasBound(t) {
			bound = true
		}
	}
	savedNoDefs := fg.noDefs
	hasContract := fg.g.contracts[target.String()] != nil
	// inlined leaf functions are evaluated to closed terms: no definitional constants, no assumptions (so that the same
	// call on the same state gives the same term); contract applications keep their assumptions unless under a binder
	dropAssumes := bound || !hasContract
	if dropAssumes {
		fg.noDefs = true
	}
	defer func() {
		fg.noDefs = savedNoDefs
		if dropAssumes {
			fg.assumes = fg.assumes[:savedAssumes]
		}
	}()
	fr := fg.newFrame(fg.fn, 1, fmt.Sprintf("spec%d~", fg.fresh))
	fg.fresh++
	var res []*Term
	if ct := fg.g.contracts[target.String()]; ct != nil {
		d := callDesc{static: target, full: target.String(), short: shortDesc(target.String()), sig: target.Signature}
		res, _ = fg.applyContract(fr, ct, d, terms, tys, e.st, True, 0, "specapp_"+target.Name())
	} else {
		// the body over parameter placeholders becomes an SMT define-fun; the application keeps its arguments as they are
		var params []*Term
		for i, p := range target.Params {
			params = append(params, Bound(fmt.Sprintf("a%d!%s", i, sanitize(target.Name())), fg.g.ti.sortOf(p.Type())))
		}
		bodies, _ := fg.inline(fr, target, params, e.st, True, "speccall_"+target.Name())
		for i, b := range bodies {
			d := fg.leafDef(sanitize(shortDesc(target.String())), params, b, i)
			res = append(res, App(d.Name, d.Sort, terms...))
		}
	}
	fg.obls = fg.obls[:savedObls]
	sig := target.Signature
	if len(res) == 1 {
		return CVal{T: res[0], Ty: sig.Results().At(0).Type()}, true, nil
	}
	var out CVal
	for i, r := range res {
		out.Tuple = append(out.Tuple, CVal{T: r, Ty: sig.Results().At(i).Type()})
	}
	return out, true, nil
}

func rootIdent(ce *CE) string {
	for ce != nil {
		if ce.Kind == "ident" {
			return ce.Name
		}
		if len(ce.Args) == 0 {
			return ""
		}
		ce = ce.Args[0]
	}
	return ""
}

func hasBound(t *Term) bool {
	if t.Kind == KBound {
		return true
	}
	for _, a := range t.Args {
		if hasBound(a) {
			return true
		}
	}
	return false
}

// specIndex: the first index of single-character string c in s, or -1. In functions with loops the quantified
// characterisation is added next to the native str.indexof (z3 needs the former, cvc5 the latter).
func (fg *FnGen) specIndex(s, c *Term) *Term {
	if hasBound(s) || hasBound(c) || !fg.quantIdx {
		return StrIndexOf(s, c, IntLit(0))
	}
	key := "index:" + s.Key() + ":" + c.Key()
	if v, ok := fg.memo[key]; ok {
		return v
	}
	r := fg.freshConst("index", SInt)
	fg.memo[key] = r
	fg.assume(Eq(r, StrIndexOf(s, c, IntLit(0))))
	fg.assume(And(Ge(r, IntLit(-1)), Lt(r, StrLen(s))))
	j := Bound(fg.freshName("ij"), SInt)
	at := func(i *Term) *Term { return App("str.at", SString, s, i) }
	none := Forall([]*Term{j}, Implies(And(Ge(j, IntLit(0)), Lt(j, StrLen(s))), Neq(at(j), c)))
	before := Forall([]*Term{j}, Implies(And(Ge(j, IntLit(0)), Lt(j, r)), Neq(at(j), c)))
	fg.assume(Or(And(Eq(r, IntLit(-1)), none), And(Ge(r, IntLit(0)), Eq(at(r), c), before)))
	return r
}

// specLastIndex: the last index of single-character string c in s, or -1.
func (fg *FnGen) specLastIndex(s, c *Term) *Term {
	if hasBound(s) || hasBound(c) {
		// no memoised constant inside quantifier bodies: use a function of (s,c) axiomatised lazily is not possible; reject
		return App("lastIndexOf", SInt, s, c)
	}
	key := "lastIndex:" + s.Key() + ":" + c.Key()
	if v, ok := fg.memo[key]; ok {
		return v
	}
	r := fg.freshConst("lastIndex", SInt)
	fg.memo[key] = r
	after := Substr(s, Add(r, IntLit(1)), Sub(StrLen(s), Add(r, IntLit(1))))
	found := And(Ge(r, IntLit(0)), Lt(r, StrLen(s)), Eq(App("str.at", SString, s, r), c), Not(StrContains(after, c)))
	fg.assume(Or(And(Eq(r, IntLit(-1)), Not(StrContains(s, c))), found))
	if fg.quantIdx {
		j := Bound(fg.freshName("lj"), SInt)
		at := func(i *Term) *Term { return App("str.at", SString, s, i) }
		none := Forall([]*Term{j}, Implies(And(Ge(j, IntLit(0)), Lt(j, StrLen(s))), Neq(at(j), c)))
		aft := Forall([]*Term{j}, Implies(And(Gt(j, r), Lt(j, StrLen(s))), Neq(at(j), c)))
		fg.assume(Or(And(Eq(r, IntLit(-1)), none), And(Ge(r, IntLit(0)), Eq(at(r), c), aft)))
	}
	return r
}

func (e *Env) lookupPackageName(name string) (CVal, bool) {
	fg := e.fg
	var pkg *ssa.Package
	if e.pkg != nil {
		if v, ok := e.memberVal(e.pkg, name); ok {
			return v, true
		}
	}
	if fg.fn != nil && fg.fn.Pkg != nil {
		pkg = fg.fn.Pkg
	} else if fg.ct != nil {
		pkg = fg.g.pkgByPath[fg.ct.Pkg]
	}
	if pkg == nil {
		return CVal{}, false
	}
	return e.memberVal(pkg, name)
}

func (e *Env) lookupQualified(pkgName, name string) (CVal, bool) {
	// package names are not unique (internal/errors, pkg/server/errors, errors): repository packages first, then the
	// rest, and the first one that declares the member wins
	ps := e.fg.g.pkgsByName[pkgName]
	for pass := 0; pass < 2; pass++ {
		for _, p := range ps {
			if strings.HasPrefix(p.Pkg.Path(), repoModule) != (pass == 0) {
				continue
			}
			if v, ok := e.memberVal(p, name); ok {
				return v, true
			}
		}
	}
	return CVal{}, false
}

func (e *Env) memberVal(pkg *ssa.Package, name string) (CVal, bool) {
	fg := e.fg
	m, ok := pkg.Members[name]
	if !ok {
		return CVal{}, false
	}
	switch x := m.(type) {
	case *ssa.NamedConst:
		return CVal{T: fg.constTerm(x.Value), Ty: x.Type()}, true
	case *ssa.Global:
		elem := x.Type().Underlying().(*types.Pointer).Elem()
		if isErrorType(elem) {
			return CVal{T: fg.sentinel("G:" + x.String()), Ty: elem}, true
		}
		return CVal{T: fg.lookup(e.st, "G:"+x.String(), fg.g.ti.sortOf(elem)), Ty: elem}, true
	}
	return CVal{}, false
}

func (e *Env) resolveType(ce *CE) (types.Type, error) {
	// forms: "*pkg.Name" as string literal or ident / field
	var s string
	switch ce.Kind {
	case "str":
		s = ce.Str
	case "ident":
		s = ce.Name
	case "field":
		s = ce.Args[0].String() + "." + ce.Name
	case "unop":
		s = ce.String()
	default:
		return nil, fmt.Errorf("bad type expression %s", ce)
	}
	switch s {
	case "[]byte":
		return types.NewSlice(types.Universe.Lookup("byte").Type()), nil
	case "error":
		return types.Universe.Lookup("error").Type(), nil
	case "string":
		return types.Typ[types.String], nil
	case "int":
		return types.Typ[types.Int], nil
	case "bool":
		return types.Typ[types.Bool], nil
	}
	switch s {
	case "int64", "uint64", "float64", "int32", "uint32", "uint8", "byte", "rune", "uint", "int8", "int16", "uint16", "float32":
		return types.Universe.Lookup(s).Type(), nil
	}
	if s == "any" {
		return types.Universe.Lookup("any").Type(), nil
	}
	if strings.HasPrefix(s, "map[") {
		if k := strings.IndexByte(s, ']'); k > 4 {
			kt, err := e.resolveType(&CE{Kind: "str", Str: s[4:k]})
			if err != nil {
				return nil, err
			}
			vt, err := e.resolveType(&CE{Kind: "str", Str: s[k+1:]})
			if err != nil {
				return nil, err
			}
			return types.NewMap(kt, vt), nil
		}
	}
	if strings.HasPrefix(s, "[]") {
		et, err := e.resolveType(&CE{Kind: "str", Str: s[2:]})
		if err != nil {
			return nil, err
		}
		return types.NewSlice(et), nil
	}
	ptr := false
	if strings.HasPrefix(s, "*") {
		ptr = true
		s = s[1:]
	}
	var pkg *ssa.Package
	tn := s
	if k := strings.LastIndexByte(s, '.'); k >= 0 {
		pkg = e.fg.g.pkgByName(s[:k])
		tn = s[k+1:]
	} else if e.fg.fn != nil {
		pkg = e.fg.fn.Pkg
	} else if e.fg.ct != nil {
		pkg = e.fg.g.pkgByPath[e.fg.ct.Pkg]
	}
	if pkg == nil {
		return nil, fmt.Errorf("unknown package in type %s", s)
	}
	m, ok := pkg.Members[tn].(*ssa.Type)
	if !ok {
		return nil, fmt.Errorf("unknown type %s", s)
	}
	var t types.Type = m.Type()
	if ptr {
		t = types.NewPointer(t)
	}
	return t, nil
}
