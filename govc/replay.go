package main

// Counterexample replay on the real code (go test -overlay) and known findings.

import (
	"bytes"
	"context"
	"encoding/json"
	"fmt"
	"go/types"
	"os"
	"os/exec"
	"path/filepath"
	"strconv"
	"strings"
	"time"
)

type KnownFinding struct {
	Property   string `json:"property"`
	Obligation string `json:"obligation"`
	What       string `json:"what"`
	Witness    string `json:"witness,omitempty"`
}

type KnownFile struct {
	Findings []KnownFinding `json:"findings"`
	Fixed    []string       `json:"fixed"`
}

func loadKnownFindings(path string) *KnownFile {
	kf := &KnownFile{}
	data, err := os.ReadFile(path)
	if err != nil {
		return kf
	}
	json.Unmarshal(data, kf)
	return kf
}

func (k *KnownFile) match(prop string, r OblResult) *KnownFinding {
	for i := range k.Findings {
		f := &k.Findings[i]
		if f.Property == prop && f.Obligation == r.Name {
			return f
		}
	}
	return nil
}

type ReplayFile struct {
	Property    string            `json:"property"`
	Obligation  string            `json:"obligation"`
	Kind        string            `json:"kind"`
	Clause      string            `json:"clause,omitempty"`
	Pos         string            `json:"pos,omitempty"`
	Note        string            `json:"note,omitempty"`
	SolverState string            `json:"solver_status"`
	PerSolver   map[string]string `json:"per_solver,omitempty"`
	SolverOut   string            `json:"solver_output,omitempty"`
	Model       map[string]string `json:"model,omitempty"`
	Inputs      map[string]any    `json:"inputs,omitempty"`
	ReplayTest  string            `json:"replay_test,omitempty"`
	ReplayOut   string            `json:"replay_output,omitempty"`
	Verdict     string            `json:"verdict"` // confirmed | not-reproduced | not-replayable | no-model
}

func basicKind(t types.Type) string {
	b, ok := t.Underlying().(*types.Basic)
	if !ok {
		return ""
	}
	switch {
	case b.Info()&types.IsString != 0:
		return "string"
	case b.Info()&types.IsBoolean != 0:
		return "bool"
	case b.Info()&types.IsInteger != 0:
		return "int"
	}
	return ""
}

// replay writes the replay file and returns the suffix for the VIOLATION line.
func (g *Gen) replay(r *OblResult, path string, repo string) string {
	rf := ReplayFile{Obligation: r.Name, Kind: r.Kind, Clause: r.Src, Pos: r.Pos, Note: r.Note, SolverState: r.Raw, PerSolver: r.All, SolverOut: r.Output, Model: r.Model}
	if r.obl != nil && len(r.obl.Props) > 0 {
		rf.Property = strings.Join(r.obl.Props, ",")
	}
	write := func() {
		data, _ := json.MarshalIndent(rf, "", " ")
		os.WriteFile(path, data, 0o644)
	}
	if r.Raw != "sat" || r.Model == nil {
		rf.Verdict = "no-model"
		write()
		return " no-failing-input-found"
	}
	verdict := g.tryReplay(r, &rf, repo, filepath.Dir(path))
	rf.Verdict = verdict
	write()
	if verdict == "confirmed" {
		return ""
	}
	return " no-failing-input-found"
}

func (g *Gen) tryReplay(r *OblResult, rf *ReplayFile, repo, dir string) string {
	o := r.obl
	if o == nil || o.ct == nil || o.ct.Kind != "func" {
		return "not-replayable"
	}
	fn := g.fnIndex[o.ct.fullKey()]
	if fn == nil || fn.Pkg == nil || fn.Signature.Recv() != nil || len(fn.FreeVars) > 0 {
		return "not-replayable"
	}
	// all params basic
	var argLits []string
	inputs := map[string]any{}
	for _, p := range fn.Params {
		k := basicKind(p.Type())
		if k == "" {
			return "not-replayable"
		}
		mv, ok := r.Model["p_"+p.Name()]
		if !ok {
			mv, ok = r.Model["|p_"+p.Name()+"|"]
		}
		if !ok {
			return "not-replayable"
		}
		switch k {
		case "string":
			s, ok := decodeSMTString(mv)
			if !ok {
				return "not-replayable"
			}
			inputs[p.Name()] = s
			argLits = append(argLits, fmt.Sprintf("%s(%s)", types.TypeString(p.Type(), qualifierFor(fn.Pkg.Pkg)), strconv.Quote(s)))
		case "bool":
			inputs[p.Name()] = mv == "true"
			argLits = append(argLits, mv)
		case "int":
			iv := strings.NewReplacer("(", "", ")", "", " ", "").Replace(mv)
			if _, err := strconv.ParseInt(iv, 10, 64); err != nil {
				if _, err2 := strconv.ParseUint(iv, 10, 64); err2 != nil {
					return "not-replayable"
				}
			}
			inputs[p.Name()] = iv
			argLits = append(argLits, fmt.Sprintf("%s(%s)", types.TypeString(p.Type(), qualifierFor(fn.Pkg.Pkg)), iv))
		}
	}
	rf.Inputs = inputs
	res := fn.Signature.Results()
	for i := 0; i < res.Len(); i++ {
		if basicKind(res.At(i).Type()) == "" {
			if r.Kind != "safe" {
				return "not-replayable"
			}
		}
	}
	// generate test
	var sb strings.Builder
	pkgName := fn.Pkg.Pkg.Name()
	fmt.Fprintf(&sb, "package %s\n\nimport (\n\t\"encoding/json\"\n\t\"fmt\"\n\t\"testing\"\n)\n\n", pkgName)
	fmt.Fprintf(&sb, "func TestGovcReplay(t *testing.T) {\n")
	fmt.Fprintf(&sb, "\tdefer func() {\n\t\tif r := recover(); r != nil {\n\t\t\tfmt.Printf(\"GOVC-PANIC %%v\\n\", r)\n\t\t}\n\t}()\n")
	var outs []string
	for i := 0; i < res.Len(); i++ {
		outs = append(outs, fmt.Sprintf("r%d", i))
	}
	call := fmt.Sprintf("%s(%s)", fn.Name(), strings.Join(argLits, ", "))
	if len(outs) > 0 {
		fmt.Fprintf(&sb, "\t%s := %s\n", strings.Join(outs, ", "), call)
		if r.Kind == "safe" {
			for _, o := range outs {
				fmt.Fprintf(&sb, "\t_ = %s\n", o)
			}
			fmt.Fprintf(&sb, "\tfmt.Println(\"GOVC-RESULT []\")\n")
		} else {
			fmt.Fprintf(&sb, "\tb, _ := json.Marshal([]any{%s})\n\tfmt.Printf(\"GOVC-RESULT %%s\\n\", b)\n", strings.Join(outs, ", "))
		}
	} else {
		fmt.Fprintf(&sb, "\t%s\n\tfmt.Println(\"GOVC-RESULT []\")\n", call)
	}
	fmt.Fprintf(&sb, "\t_ = json.Marshal\n}\n")
	os.MkdirAll(dir, 0o755)
	testPath := filepath.Join(dir, sanitize(r.Name)+"_replay_test.go")
	os.WriteFile(testPath, []byte(sb.String()), 0o644)
	rf.ReplayTest = testPath
	rel := strings.TrimPrefix(fn.Pkg.Pkg.Path(), repoModule+"/")
	target := filepath.Join(repo, rel, "zz_govc_replay_test.go")
	ov := map[string]any{"Replace": map[string]string{target: testPath}}
	ovData, _ := json.Marshal(ov)
	ovPath := filepath.Join(dir, sanitize(r.Name)+"_overlay.json")
	os.WriteFile(ovPath, ovData, 0o644)
	defer os.Remove(ovPath)
	ctx, cancel := context.WithTimeout(context.Background(), 180*time.Second)
	defer cancel()
	cmd := exec.CommandContext(ctx, "go", "test", "-overlay", ovPath, "-vet=off", "-count=1", "-timeout", "60s", "-run", "^TestGovcReplay$", "-v", "./"+rel)
	cmd.Dir = repo
	cmd.Env = goEnv()
	var out bytes.Buffer
	cmd.Stdout = &out
	cmd.Stderr = &out
	cmd.Run()
	txt := out.String()
	rf.ReplayOut = firstLines(txt, 30)
	if strings.Contains(txt, "GOVC-PANIC") {
		if r.Kind == "safe" {
			return "confirmed"
		}
		return "confirmed"
	}
	i := strings.Index(txt, "GOVC-RESULT ")
	if i < 0 {
		return "not-replayable"
	}
	if r.Kind == "safe" {
		return "not-reproduced"
	}
	line := txt[i+len("GOVC-RESULT "):]
	if k := strings.IndexByte(line, '\n'); k >= 0 {
		line = line[:k]
	}
	var vals []any
	if err := json.Unmarshal([]byte(line), &vals); err != nil {
		return "not-replayable"
	}
	if o.clause == nil || r.Kind != "post" {
		return "not-replayable"
	}
	// evaluate the clause on the concrete inputs and outputs
	fg := g.newFnGen(fn, o.ct, "replay")
	env := &Env{fg: fg, vars: map[string]CVal{}, st: fg.initState}
	for _, p := range fn.Params {
		env.vars[p.Name()] = CVal{T: litFor(inputs[p.Name()], p.Type()), Ty: p.Type()}
	}
	fg.paramEnv = env.vars
	env.old = &Env{fg: fg, vars: env.vars, st: fg.initState}
	for i, rn := range o.ct.Results {
		if i < len(vals) {
			env.vars[rn] = CVal{T: litFor(vals[i], res.At(i).Type()), Ty: res.At(i).Type()}
		}
	}
	v, err := env.evalBool(o.clause.Expr)
	if err != nil {
		return "not-replayable"
	}
	rasserts := append(append([]*Term{}, fg.assumes...), Not(v))
	script := ScriptD(rasserts, nil, defsUsed(fg.defs, rasserts))
	wd, _ := os.MkdirTemp("", "govc-replay-")
	defer os.RemoveAll(wd)
	sr := Solve(script, wd, "replay", 20, false)
	rf.ReplayOut += fmt.Sprintf("\nclause on real outputs %s: negation is %s", line, sr.Status)
	switch sr.Status {
	case "sat":
		return "confirmed"
	case "unsat":
		return "not-reproduced"
	}
	return "not-replayable"
}

func qualifierFor(pkg *types.Package) types.Qualifier {
	return func(p *types.Package) string {
		if p == pkg {
			return ""
		}
		return p.Name()
	}
}

func litFor(v any, t types.Type) *Term {
	switch basicKind(t) {
	case "string":
		s, _ := v.(string)
		return StrLit(s)
	case "bool":
		b, _ := v.(bool)
		return BoolLit(b)
	case "int":
		switch x := v.(type) {
		case string:
			return BigIntLit(x)
		case float64:
			return IntLit(int64(x))
		}
	}
	return IntLit(0)
}
