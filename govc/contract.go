package main

// Contract file parser. Contracts are //@ comment blocks in <pkg>/verif_contracts.go (build tag verif)
// and in /verif/spec/*.spec (same syntax, "//@" prefix optional).

import (
	"fmt"
	"os"
	"path/filepath"
	"regexp"
	"strconv"
	"strings"
)

type Clause struct {
	Label string
	Expr  *CE
	Src   string
	Line  int
}

type LetStmt struct {
	Names []string
	Call  *CE // call expression
	Line  int
	Src   string
	// Kind: "let" (contract call), "assert" (proof hint: obligation then assumption), "assume" (counted as assumption)
	Kind  string
	Expr  *CE
	FnKey string // method key when the callee is written as (*T).M
}

type MonitorRule struct {
	Kind    string   // "after" | "before"
	Callees []string // patterns
	Rets    []string // names bound to results (after ... returning r, err); a single name binds the LAST result
	Sets    []GhostSet
	Assert  *CE      // before: assertion over ghost variables
	ArgBind []string // names for args
	Src     string
}

type GhostSet struct {
	Name string
	Expr *CE
}

type GhostDecl struct {
	Name string
	Sort string
	Init *CE
}

type Contract struct {
	Kind       string // func | lemma | spec | iface
	Key        string
	Pkg        string // import path
	Dir        string
	ParamNames []string
	ParamTypes []string
	Results    []string
	Props      []string
	Requires   []*Clause
	Ensures    []*Clause
	Invariants map[int][]*Clause
	Stmts      []LetStmt
	Pure       bool
	Trusted    bool
	NoInline   bool
	Refines    []string
	Modifies   []string
	Options    map[string]string
	SpecBody   *CE
	SpecSort   string
	Monitors   []*Monitor
	Abstract   []string // notes
	File       string
	Line       int
}

type Monitor struct {
	Name   string
	Ghosts []GhostDecl
	Rules  []MonitorRule
}

var clauseKeywords = map[string]bool{
	"func": true, "lemma": true, "spec": true, "iface": true, "uninterp": true,
	"requires": true, "ensures": true, "loop": true, "pure": true, "trusted": true, "modifies": true,
	"property": true, "let": true, "assert": true, "assume": true, "use": true, "option": true, "monitor": true,
	"after": true, "before": true, "ghost": true, "noinline": true, "refines": true, "note": true, "end": true,
}

type rawLine struct {
	text string
	line int
}

func readContractLines(path string) ([]rawLine, error) {
	data, err := os.ReadFile(path)
	if err != nil {
		return nil, err
	}
	return contractLinesFromBytes(data, strings.HasSuffix(path, ".go")), nil
}

func contractLinesFromBytes(data []byte, goFile bool) []rawLine {
	var out []rawLine
	for i, l := range strings.Split(string(data), "\n") {
		t := strings.TrimSpace(l)
		if strings.HasPrefix(t, "//@") {
			t = strings.TrimSpace(t[3:])
		} else if goFile {
			continue
		} else if strings.HasPrefix(t, "//") {
			continue
		}
		if t == "" {
			continue
		}
		first := t
		if j := strings.IndexAny(t, " \t("); j >= 0 {
			first = t[:j]
		}
		if !clauseKeywords[first] && len(out) > 0 {
			out[len(out)-1].text += " " + t
			continue
		}
		out = append(out, rawLine{t, i + 1})
	}
	return out
}

var methodCallRe = regexp.MustCompile(`^(\(\*?[A-Za-z0-9_./]+\)\.[A-Za-z0-9_$]+)\(`)

var labelRe = regexp.MustCompile(`^@([A-Za-z0-9_\-]+)\s+`)

func parseClause(rest string, line int, dflt string) (*Clause, error) {
	label := dflt
	if m := labelRe.FindStringSubmatch(rest); m != nil {
		label = m[1]
		rest = rest[len(m[0]):]
	}
	e, err := ParseCE(rest)
	if err != nil {
		return nil, fmt.Errorf("line %d: %v", line, err)
	}
	return &Clause{Label: label, Expr: e, Src: rest, Line: line}, nil
}

// parseFuncHeader parses "(*T).Name(a, b) (r1, r2)" / "Name(a T, b T) (r T)" / "Name$1(...)".
func parseFuncHeader(s string) (key string, params, ptypes, results []string, err error) {
	s = strings.TrimSpace(s)
	i := 0
	if strings.HasPrefix(s, "(") {
		j := strings.IndexByte(s, ')')
		if j < 0 {
			return "", nil, nil, nil, fmt.Errorf("bad receiver in %q", s)
		}
		i = j + 1
	}
	k := strings.IndexByte(s[i:], '(')
	if k < 0 {
		return strings.TrimSpace(s), nil, nil, nil, nil
	}
	key = strings.TrimSpace(s[:i+k])
	rest := s[i+k:]
	// params group
	depth := 0
	end := -1
	for j := 0; j < len(rest); j++ {
		if rest[j] == '(' {
			depth++
		} else if rest[j] == ')' {
			depth--
			if depth == 0 {
				end = j
				break
			}
		}
	}
	if end < 0 {
		return "", nil, nil, nil, fmt.Errorf("unbalanced parens in %q", s)
	}
	params, ptypes = splitDecls(rest[1:end])
	res := strings.TrimSpace(rest[end+1:])
	if strings.HasPrefix(res, "(") && strings.HasSuffix(res, ")") {
		results, _ = splitDecls(res[1 : len(res)-1])
	} else if res != "" {
		results = []string{strings.Fields(res)[0]}
	}
	return key, params, ptypes, results, nil
}

func splitDecls(s string) (names, types []string) {
	for _, part := range strings.Split(s, ",") {
		f := strings.Fields(part)
		if len(f) == 0 {
			continue
		}
		names = append(names, f[0])
		if len(f) > 1 {
			types = append(types, strings.Join(f[1:], " "))
		} else {
			types = append(types, "")
		}
	}
	for i := len(types) - 2; i >= 0; i-- {
		if types[i] == "" {
			types[i] = types[i+1]
		}
	}
	return
}

func ParseContractFile(path, pkgPath string) ([]*Contract, error) {
	lines, err := readContractLines(path)
	if err != nil {
		return nil, err
	}
	return parseContractLines(lines, path, pkgPath)
}

func parseContractLines(lines []rawLine, path, pkgPath string) ([]*Contract, error) {
	var out []*Contract
	var cur *Contract
	var curMon *Monitor
	var fileProps []string
	for _, rl := range lines {
		t := rl.text
		kw := t
		rest := ""
		if j := strings.IndexAny(t, " \t"); j >= 0 {
			kw, rest = t[:j], strings.TrimSpace(t[j+1:])
		}
		fail := func(err error) error { return fmt.Errorf("%s:%d: %v", path, rl.line, err) }
		switch kw {
		case "func", "iface":
			key, pn, pt, rs, err := parseFuncHeader(rest)
			if err != nil {
				return nil, fail(err)
			}
			cur = &Contract{Kind: kw, Key: key, Pkg: pkgPath, Dir: filepath.Dir(path), ParamNames: pn, ParamTypes: pt, Results: rs,
				Invariants: map[int][]*Clause{}, Options: map[string]string{}, File: path, Line: rl.line, Props: append([]string{}, fileProps...)}
			out = append(out, cur)
			curMon = nil
		case "lemma":
			key, pn, pt, _, err := parseFuncHeader(rest)
			if err != nil {
				return nil, fail(err)
			}
			cur = &Contract{Kind: "lemma", Key: key, Pkg: pkgPath, Dir: filepath.Dir(path), ParamNames: pn, ParamTypes: pt,
				Invariants: map[int][]*Clause{}, Options: map[string]string{}, File: path, Line: rl.line, Props: append([]string{}, fileProps...)}
			out = append(out, cur)
			curMon = nil
		case "spec":
			// spec name(params) sort = expr
			eq := strings.Index(rest, " = ")
			if eq < 0 {
				return nil, fail(fmt.Errorf("spec needs ' = '"))
			}
			hdr, body := rest[:eq], rest[eq+3:]
			key, pn, pt, rs, err := parseFuncHeader(hdr)
			if err != nil {
				return nil, fail(err)
			}
			e, err := ParseCE(body)
			if err != nil {
				return nil, fail(err)
			}
			srt := "bool"
			if len(rs) > 0 {
				srt = rs[0]
			}
			cur = &Contract{Kind: "spec", Key: key, Pkg: pkgPath, ParamNames: pn, ParamTypes: pt, SpecBody: e, SpecSort: srt, File: path, Line: rl.line,
				Options: map[string]string{}, Invariants: map[int][]*Clause{}}
			out = append(out, cur)
			curMon = nil
		case "uninterp":
			key, pn, pt, rs, err := parseFuncHeader(rest)
			if err != nil {
				return nil, fail(err)
			}
			srt := "bool"
			if len(rs) > 0 {
				srt = rs[0]
			}
			out = append(out, &Contract{Kind: "uninterp", Key: key, ParamNames: pn, ParamTypes: pt, SpecSort: srt, File: path, Line: rl.line,
				Options: map[string]string{}, Invariants: map[int][]*Clause{}})
			cur = nil
			curMon = nil
		case "property":
			if cur == nil {
				fileProps = strings.Fields(rest)
			} else {
				cur.Props = strings.Fields(rest)
			}
		case "requires":
			if cur == nil {
				return nil, fail(fmt.Errorf("clause outside block"))
			}
			c, err := parseClause(rest, rl.line, strconv.Itoa(len(cur.Requires)))
			if err != nil {
				return nil, fail(err)
			}
			cur.Requires = append(cur.Requires, c)
		case "ensures":
			if cur == nil {
				return nil, fail(fmt.Errorf("clause outside block"))
			}
			c, err := parseClause(rest, rl.line, strconv.Itoa(len(cur.Ensures)))
			if err != nil {
				return nil, fail(err)
			}
			cur.Ensures = append(cur.Ensures, c)
		case "loop":
			// loop N invariant expr
			f := strings.SplitN(rest, " ", 3)
			if len(f) < 3 || f[1] != "invariant" {
				return nil, fail(fmt.Errorf("expected 'loop N invariant expr'"))
			}
			n, err := strconv.Atoi(f[0])
			if err != nil {
				return nil, fail(err)
			}
			c, err := parseClause(f[2], rl.line, strconv.Itoa(len(cur.Invariants[n])))
			if err != nil {
				return nil, fail(err)
			}
			cur.Invariants[n] = append(cur.Invariants[n], c)
		case "pure":
			cur.Pure = true
		case "trusted":
			cur.Trusted = true
		case "noinline":
			cur.NoInline = true
		case "refines":
			cur.Refines = append(cur.Refines, strings.Fields(rest)...)
		case "modifies":
			if strings.TrimSpace(rest) == "nothing" {
				cur.Pure = true
				break
			}
			cur.Modifies = append(cur.Modifies, strings.Fields(strings.ReplaceAll(rest, ",", " "))...)
		case "option":
			f := strings.SplitN(rest, " ", 2)
			v := "true"
			if len(f) > 1 {
				v = f[1]
			}
			cur.Options[f[0]] = v
		case "note":
			cur.Abstract = append(cur.Abstract, rest)
		case "let":
			// let a, b = F(x, y)
			eq := strings.Index(rest, "=")
			if eq < 0 {
				return nil, fail(fmt.Errorf("let needs '='"))
			}
			var names []string
			for _, n := range strings.Split(rest[:eq], ",") {
				names = append(names, strings.TrimSpace(n))
			}
			rhs := strings.TrimSpace(rest[eq+1:])
			fnKey := ""
			if m := methodCallRe.FindStringSubmatch(rhs); m != nil {
				fnKey = m[1]
				rhs = "__callee(" + rhs[len(m[0]):]
			}
			e, err := ParseCE(rhs)
			if err != nil {
				return nil, fail(err)
			}
			cur.Stmts = append(cur.Stmts, LetStmt{Kind: "let", Names: names, Call: e, Line: rl.line, Src: rest, FnKey: fnKey})
		case "use":
			// use lemmaName(args): instantiate a lemma proved elsewhere (its requires become obligations, its ensures facts)
			e, err := ParseCE(rest)
			if err != nil {
				return nil, fail(err)
			}
			cur.Stmts = append(cur.Stmts, LetStmt{Kind: "use", Expr: e, Line: rl.line, Src: rest})
		case "assert", "assume":
			if curMon != nil && kw == "assert" {
				return nil, fail(fmt.Errorf("assert inside monitor must follow 'before'"))
			}
			e, err := ParseCE(rest)
			if err != nil {
				return nil, fail(err)
			}
			cur.Stmts = append(cur.Stmts, LetStmt{Kind: kw, Expr: e, Line: rl.line, Src: rest})
		case "monitor":
			curMon = &Monitor{Name: strings.TrimSpace(rest)}
			cur.Monitors = append(cur.Monitors, curMon)
		case "ghost":
			// ghost name = expr
			if curMon == nil {
				return nil, fail(fmt.Errorf("ghost outside monitor"))
			}
			eq := strings.Index(rest, "=")
			if eq < 0 {
				return nil, fail(fmt.Errorf("ghost needs '= init'"))
			}
			decl := strings.Fields(rest[:eq])
			gd := GhostDecl{Name: decl[0], Sort: "bool"}
			if len(decl) > 1 {
				gd.Sort = decl[1]
			}
			e, err := ParseCE(strings.TrimSpace(rest[eq+1:]))
			if err != nil {
				return nil, fail(err)
			}
			gd.Init = e
			curMon.Ghosts = append(curMon.Ghosts, gd)
		case "after", "before":
			// after call P1 | P2 [returning x] : flag = expr
			// before call P1 | P2 : assert expr
			if curMon == nil {
				return nil, fail(fmt.Errorf("%s outside monitor", kw))
			}
			colon := strings.Index(rest, " : ")
			if colon < 0 {
				return nil, fail(fmt.Errorf("monitor rule needs ' : '"))
			}
			head, body := strings.TrimSpace(rest[:colon]), strings.TrimSpace(rest[colon+3:])
			head = strings.TrimPrefix(head, "call ")
			r := MonitorRule{Kind: kw, Src: rest}
			if k := strings.Index(head, " returning "); k >= 0 {
				for _, a := range strings.Split(head[k+len(" returning "):], ",") {
					r.Rets = append(r.Rets, strings.TrimSpace(a))
				}
				head = head[:k]
			}
			if k := strings.Index(head, " args "); k >= 0 {
				for _, a := range strings.Split(head[k+len(" args "):], ",") {
					r.ArgBind = append(r.ArgBind, strings.TrimSpace(a))
				}
				head = head[:k]
			}
			for _, pat := range strings.Split(head, "|") {
				r.Callees = append(r.Callees, strings.TrimSpace(pat))
			}
			if kw == "after" {
				for _, asg := range strings.Split(body, ";") {
					eq := strings.Index(asg, "=")
					if eq < 0 {
						return nil, fail(fmt.Errorf("monitor assignment needs '='"))
					}
					e, err := ParseCE(strings.TrimSpace(asg[eq+1:]))
					if err != nil {
						return nil, fail(err)
					}
					r.Sets = append(r.Sets, GhostSet{Name: strings.TrimSpace(asg[:eq]), Expr: e})
				}
			} else {
				body = strings.TrimPrefix(body, "assert ")
				e, err := ParseCE(body)
				if err != nil {
					return nil, fail(err)
				}
				r.Assert = e
			}
			curMon.Rules = append(curMon.Rules, r)
		case "end":
			cur = nil
			curMon = nil
		default:
			return nil, fail(fmt.Errorf("unknown clause keyword %q", kw))
		}
	}
	return out, nil
}
