package main

import "sync"

// Reference ages: a term assumed `<= reflimit` denotes an object that existed on entry, a term assumed `> reflimit`
// an allocation made by the function under verification. Two such terms are distinct, which lets the array smart
// constructor skip a store at a fresh row when reading a pre-existing one (purely a simplification: the same fact is
// among the assumptions of every query). Keys are per function: the registry is reset when a new FnGen starts.
var (
	refAgeMu sync.RWMutex
	refOld   = map[string]bool{}
	refFresh = map[string]bool{}
)

func resetRefAges() {
	refAgeMu.Lock()
	refOld = map[string]bool{}
	refFresh = map[string]bool{}
	refAgeMu.Unlock()
}

func noteRefAge(t *Term) {
	if t.Kind != KApp || len(t.Args) != 2 {
		return
	}
	b := t.Args[1]
	if b.Kind != KConst || b.Op != "reflimit" {
		return
	}
	switch t.Op {
	case "<=":
		refAgeMu.Lock()
		refOld[t.Args[0].Key()] = true
		refAgeMu.Unlock()
	case ">":
		refAgeMu.Lock()
		refFresh[t.Args[0].Key()] = true
		refAgeMu.Unlock()
	}
}

func refsDistinct(a, b *Term) bool {
	if a.Sort != SInt || b.Sort != SInt {
		return false
	}
	refAgeMu.RLock()
	defer refAgeMu.RUnlock()
	if len(refOld) == 0 || len(refFresh) == 0 {
		return false
	}
	ka, kb := a.Key(), b.Key()
	return (refOld[ka] && refFresh[kb]) || (refFresh[ka] && refOld[kb])
}
