package main

// Source-level names of local variables (from go/ssa DebugRef instructions and phi comments), flow-sensitive along the
// dominator tree: usable in postconditions of the function under verification.

import (
	"go/token"
	"go/types"

	"golang.org/x/tools/go/ssa"
)

func (fr *Frame) enterBlockLocals(b *ssa.BasicBlock) {
	if !fr.top {
		return
	}
	if fr.locals == nil {
		fr.locals = map[*ssa.BasicBlock]map[string]CVal{}
	}
	m := map[string]CVal{}
	if d := b.Idom(); d != nil {
		for k, v := range fr.locals[d] {
			m[k] = v
		}
	}
	fr.locals[b] = m
}

func (fr *Frame) noteLocal(b *ssa.BasicBlock, name string, t *Term, ty types.Type) {
	if fr.locals == nil || fr.locals[b] == nil || name == "" || name == "_" {
		return
	}
	fr.locals[b][name] = CVal{T: t, Ty: ty}
}

func (fr *Frame) localsAt(b *ssa.BasicBlock) map[string]CVal {
	out := map[string]CVal{}
	if fr.locals == nil {
		return out
	}
	for k, v := range fr.locals[b] {
		out[k] = v
	}
	return out
}

// load reads through pointer p; the loaded value satisfies its type's representation invariants (slice header
// well-formed, integer range, interface tag) like every Go value.
func (fg *FnGen) load(fr *Frame, p ssa.Value, st *State, reach *Term, pos token.Pos) *Term {
	v := fg.loadRaw(fr, p, st, reach, pos)
	if fg.noDefs || hasBound(v) {
		return v
	}
	if pt, ok := p.Type().Underlying().(*types.Pointer); ok {
		switch pt.Elem().Underlying().(type) {
		case *types.Slice, *types.Interface, *types.Basic:
			if v.Kind != KIntLit && v.Kind != KStrLit && v.Kind != KBoolLit {
				fg.assumeValid(v, pt.Elem(), reach)
			}
		}
		// a reference found in the heap was allocated before now
		switch pt.Elem().Underlying().(type) {
		case *types.Slice:
			fg.assumeIf(reach, Le(SBase(v), fg.currentClock()))
		case *types.Pointer, *types.Map, *types.Chan:
			fg.assumeIf(reach, Le(v, fg.currentClock()))
		}
	}
	return v
}

// collectWitnesses: candidate witnesses for integer existentials = the range indices (and their successors) of the
// loops of the function under verification that have been reached so far.
func (fg *FnGen) collectWitnesses() {
	if fg.top == nil || fg.fn == nil {
		return
	}
	seen := map[string]bool{}
	for _, w := range fg.witnesses {
		seen[w.Key()] = true
	}
	for _, b := range fg.fn.Blocks {
		for _, ins := range b.Instrs {
			if phi, ok := ins.(*ssa.Phi); ok && phi.Comment == "rangeindex" {
				if t, ok := fg.top.vals[phi]; ok {
					for _, w := range []*Term{t, Add(t, IntLit(1))} {
						if !seen[w.Key()] {
							seen[w.Key()] = true
							fg.witnesses = append(fg.witnesses, w)
						}
					}
				}
			}
		}
	}
}
