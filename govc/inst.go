package main

// Instantiation hints. Quantified invariants over slice contents produce queries whose proof is a short chain of
// instantiations at loop indices, but the patterns the solvers pick contain arithmetic (offset + index), which makes
// E-matching brittle: the same proof is found or missed depending on unrelated details (type numbering, machine load).
// This pass makes the chain explicit and solver-independent. It only ever ADDS consequences of the given assertions
// (instances of universally quantified assertions; Skolem constants for existential ones), so the query it returns is
// equisatisfiable with the input: `unsat` still proves the obligation, `sat` is still a model of the original query.

import (
	"fmt"
	"sort"
)

const (
	instMaxCandidates = 14
	instMaxInstances  = 160
	instRounds        = 3
)

type instCtx struct {
	fresh      int
	candidates map[string]*Term // ground Int terms used as indices
	order      []string
	out        []*Term
	seen       map[string]bool
	instances  int
	done       map[string]bool // (quantifier key, candidate key) pairs already instantiated
}

func (c *instCtx) addCandidate(t *Term) {
	if t == nil || t.Sort != SInt || hasBoundOrQuant(t) || termSize(t) > 12 {
		return
	}
	k := t.Key()
	if _, ok := c.candidates[k]; ok {
		return
	}
	if len(c.candidates) >= instMaxCandidates {
		return
	}
	c.candidates[k] = t
	c.order = append(c.order, k)
}

func termSize(t *Term) int {
	n := 1
	for _, a := range t.Args {
		n += termSize(a)
		if n > 64 {
			return n
		}
	}
	return n
}

func hasBoundOrQuant(t *Term) bool { return hasBound(t) || hasQuant(t) }

// collectIndexTerms: ground index terms k of element reads select(row, off+k) / select(row, k) outside binders.
func (c *instCtx) collectIndexTerms(t *Term) {
	if t.Kind == KQuant {
		return
	}
	if t.Kind == KApp && t.Op == "select" && len(t.Args) == 2 && t.Args[1].Sort == SInt {
		ix := t.Args[1]
		// rows of two-level memories are indexed by element position; first-level selects are indexed by reference
		if inner := t.Args[0]; inner.Kind == KApp && inner.Op == "select" || isRowConst(inner) {
			if ix.Kind == KApp && ix.Op == "+" {
				var rest []*Term
				hasOff := false
				for _, a := range ix.Args {
					if a.Kind == KApp && a.Op == "soff" {
						hasOff = true
						continue
					}
					rest = append(rest, a)
				}
				if hasOff && len(rest) > 0 {
					k := rest[0]
					if len(rest) > 1 {
						k = Add(rest[0], rest[1])
						for _, r := range rest[2:] {
							k = Add(k, r)
						}
					}
					c.addCandidate(k)
				} else {
					c.addCandidate(ix)
				}
			} else if ix.Kind != KIntLit || ix.isSmallInt() {
				c.addCandidate(ix)
			}
		}
	}
	for _, a := range t.Args {
		c.collectIndexTerms(a)
	}
}

// isRowConst: a constant of sort (Array Int X) with X not an array, i.e. one row of a slice memory.
func isRowConst(t *Term) bool {
	if t.Kind != KConst || len(t.Sort) < 11 || t.Sort[:11] != "(Array Int " {
		return false
	}
	_, v := splitArraySort(t.Sort)
	return len(v) < 7 || v[:7] != "(Array "
}

func (c *instCtx) emit(t *Term) {
	if t == nil || t == True {
		return
	}
	k := t.Key()
	if c.seen[k] {
		return
	}
	c.seen[k] = true
	c.out = append(c.out, t)
}

// skolemize replaces existential quantifiers in positive position (and universal ones in negative position) by fresh
// constants; the constants become instantiation candidates. Quantifiers under ite / = / other operators are left alone.
func (c *instCtx) skolemize(t *Term, positive bool) *Term {
	switch {
	case t.Kind == KQuant:
		if (t.Op == "exists") == positive {
			m := map[string]*Term{}
			for _, q := range t.Q {
				c.fresh++
				sk := Const(fmt.Sprintf("sk!%s!%d", q.Op, c.fresh), q.Sort)
				m[q.Op] = sk
				if q.Sort == SInt {
					c.addCandidate(sk)
				}
			}
			return c.skolemize(Subst(t.Args[0], m), positive)
		}
		return t
	case t.Kind == KApp && t.Op == "not" && len(t.Args) == 1:
		a := c.skolemize(t.Args[0], !positive)
		if a == t.Args[0] {
			return t
		}
		return Not(a)
	case t.Kind == KApp && (t.Op == "and" || t.Op == "or"):
		changed := false
		args := make([]*Term, len(t.Args))
		for i, a := range t.Args {
			args[i] = c.skolemize(a, positive)
			if args[i] != a {
				changed = true
			}
		}
		if !changed {
			return t
		}
		// an existential under a disjunction (positive) is still soundly replaced: the Skolem constant is fresh
		return App(t.Op, SBool, args...)
	case t.Kind == KApp && t.Op == "=>" && len(t.Args) == 2:
		a := c.skolemize(t.Args[0], !positive)
		b := c.skolemize(t.Args[1], positive)
		if a == t.Args[0] && b == t.Args[1] {
			return t
		}
		return App("=>", SBool, a, b)
	}
	return t
}

// universals returns the universally quantified subformulas of t in positive position together with the guard
// under which they hold (conjunction of implication antecedents), for single-variable Int quantifiers.
func universals(t *Term, guard *Term, positive bool, out *[]guardedQ) {
	switch {
	case t.Kind == KQuant:
		if (t.Op == "forall") == positive && len(t.Q) == 1 && t.Q[0].Sort == SInt {
			*out = append(*out, guardedQ{guard, t, positive})
		}
	case t.Kind == KApp && t.Op == "and" && positive:
		for _, a := range t.Args {
			universals(a, guard, positive, out)
		}
	case t.Kind == KApp && t.Op == "=>" && len(t.Args) == 2 && positive:
		if !hasQuant(t.Args[0]) {
			universals(t.Args[1], And(guard, t.Args[0]), positive, out)
		}
	}
}

type guardedQ struct {
	guard    *Term
	q        *Term
	positive bool
}

// instantiate returns asserts plus instances; the last element of asserts is the negated goal.
func instantiate(asserts []*Term) []*Term {
	anyQ := false
	for _, a := range asserts {
		if hasQuant(a) {
			anyQ = true
			break
		}
	}
	if !anyQ {
		return asserts
	}
	c := &instCtx{candidates: map[string]*Term{}, seen: map[string]bool{}, done: map[string]bool{}}
	// 1. Skolemize (goal first, so that its Skolem constants get candidate slots)
	sk := make([]*Term, len(asserts))
	for i := len(asserts) - 1; i >= 0; i-- {
		sk[i] = c.skolemize(asserts[i], true)
	}
	// 2. candidates from ground index terms (goal first)
	for i := len(sk) - 1; i >= 0; i-- {
		c.collectIndexTerms(sk[i])
	}
	for _, a := range sk {
		c.emit(a)
	}
	// 3. rounds of instantiation
	for round := 0; round < instRounds; round++ {
		var qs []guardedQ
		for _, a := range c.out {
			universals(a, True, true, &qs)
		}
		before := len(c.out)
		keys := append([]string{}, c.order...)
		for _, gq := range qs {
			qk := gq.q.Key()
			for _, ck := range keys {
				if c.instances >= instMaxInstances {
					break
				}
				if c.done[qk+"@"+ck] {
					continue
				}
				c.done[qk+"@"+ck] = true
				inst := Subst(gq.q.Args[0], map[string]*Term{gq.q.Q[0].Op: c.candidates[ck]})
				inst = c.skolemize(inst, true)
				c.collectIndexTermsShallow(inst)
				c.instances++
				c.emit(Implies(gq.guard, inst))
			}
		}
		if len(c.out) == before {
			break
		}
	}
	// keep the negated goal last (callers rely on it)
	goalKey := sk[len(sk)-1].Key()
	var res []*Term
	for _, a := range c.out {
		if a.Key() != goalKey {
			res = append(res, a)
		}
	}
	sort.SliceStable(res, func(i, j int) bool { return false })
	return append(res, sk[len(sk)-1])
}

// collectIndexTermsShallow: new ground index terms exposed by an instance (e.g. Skolem witnesses used as indices).
func (c *instCtx) collectIndexTermsShallow(t *Term) { c.collectIndexTerms(t) }
