package main

import "go/types"

// valueOnly reports whether values of type t contain no references (pointers, slices, maps, channels, functions, interfaces).
func valueOnly(t types.Type, depth int) bool {
	if depth > 6 {
		return false
	}
	switch u := t.Underlying().(type) {
	case *types.Basic:
		return u.Kind() != types.UnsafePointer
	case *types.Struct:
		for i := 0; i < u.NumFields(); i++ {
			if !valueOnly(u.Field(i).Type(), depth+1) {
				return false
			}
		}
		return true
	case *types.Array:
		return valueOnly(u.Elem(), depth+1)
	}
	return false
}

// pureFunctional: all arguments and results are value-typed (strings, numbers, booleans, structs of those).
func pureFunctional(argTypes []types.Type, sig *types.Signature) bool {
	for _, t := range argTypes {
		if t == nil || !valueOnly(t, 0) {
			return false
		}
	}
	for i := 0; i < sig.Results().Len(); i++ {
		if !valueOnly(sig.Results().At(i).Type(), 0) {
			return false
		}
	}
	return true
}

// hasQuantCE: does the contract expression contain a quantifier (directly; spec expansions are not inspected)?
func hasQuantCE(e *CE) bool {
	if e == nil {
		return false
	}
	if e.Kind == "quant" {
		return true
	}
	for _, a := range e.Args {
		if hasQuantCE(a) {
			return true
		}
	}
	return false
}

func hasQuant(t *Term) bool {
	if t.Kind == KQuant {
		return true
	}
	for _, a := range t.Args {
		if hasQuant(a) {
			return true
		}
	}
	return false
}

func (fg *FnGen) defsOrNil() map[string]*FunDef {
	if fg == nil {
		return nil
	}
	return fg.defs
}

func allValueOnly(ts []types.Type) bool {
	for _, t := range ts {
		if t == nil || !valueOnly(t, 0) {
			return false
		}
	}
	return true
}

// hasStrConcat: the term contains string concatenation (word equations are where the string solvers are slow and the
// string-abstracted query is worth racing).
func hasStrConcat(t *Term) bool {
	if t.Kind == KApp && t.Op == "str.++" {
		return true
	}
	for _, a := range t.Args {
		if hasStrConcat(a) {
			return true
		}
	}
	return false
}
