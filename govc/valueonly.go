package main

import "go/types"

// valueOnly reports whether values of type t contain no references (pointers, slices, maps, channels, functions, interfaces).
func valueOnly(t types.Type, depth int) bool {
	if depth > 6 {
		return false
	}
	switch u := t.Underlying().(type) {
	case *types.Basic:
		return u.Kind() != types.UnsafePointer
	case *types.Struct:
		for i := 0; i < u.NumFields(); i++ {
			if !valueOnly(u.Field(i).Type(), depth+1) {
				return false
			}
		}
		return true
	case *types.Array:
		return valueOnly(u.Elem(), depth+1)
	}
	return false
}
