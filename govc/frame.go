package main

// Frame obligations: a function whose contract says `pure` or `modifies ...` must leave every pre-existing heap
// location outside the modifies set unchanged (allocations made by the function are > reflimit and are free).
// The same condition is carried through loops as an automatically generated loop invariant (checked on entry and on
// every back edge like a written invariant, assumed at the header) for every heap variable the loop writes.

import (
	"fmt"
	"go/types"
	"sort"
	"strings"

	"golang.org/x/tools/go/ssa"
)

const probeVar = "HP:$probe"

type frameSpec struct {
	allowed   map[string]bool
	byteBases []*Term
	elemBases map[string][]*Term
	skip      []string
}

// frameSpecFor evaluates the modifies clause of the function's contract once (over the entry state).
func (fg *FnGen) frameSpecFor(fr *Frame, ct *Contract) *frameSpec {
	if fg.fspec != nil {
		return fg.fspec
	}
	fs := &frameSpec{allowed: map[string]bool{}, elemBases: map[string][]*Term{}}
	env := fg.baseEnv(fr, fg.initState)
	for _, m := range ct.Modifies {
		if m == "nothing" {
			continue
		}
		if strings.HasPrefix(m, "bytes(") && strings.HasSuffix(m, ")") {
			ce, err := ParseCE(m[6 : len(m)-1])
			if err == nil {
				if v, err2 := env.eval(ce); err2 == nil && v.T != nil && v.T.Sort == SSlice {
					fs.byteBases = append(fs.byteBases, SBase(v.T))
					continue
				}
			}
			fg.bindFailure("frame:modifies", fmt.Errorf("cannot evaluate %s", m), fg.fn.Pos())
			fs.allowed["MemB"] = true
			continue
		}
		if strings.HasPrefix(m, "elems(") && strings.HasSuffix(m, ")") {
			ok := false
			if ce, err := ParseCE(m[6 : len(m)-1]); err == nil {
				if v, err2 := env.eval(ce); err2 == nil && v.T != nil && v.T.Sort == SSlice && v.Ty != nil {
					if sl, isSl := v.Ty.Underlying().(*types.Slice); isSl {
						mn, _, _ := fg.memVar(sl.Elem())
						fs.elemBases[mn] = append(fs.elemBases[mn], SBase(v.T))
						ok = true
					}
				}
			}
			if !ok {
				fg.bindFailure("frame:modifies", fmt.Errorf("cannot evaluate %s", m), fg.fn.Pos())
			}
			continue
		}
		fs.allowed[m] = true
	}
	if ct.Options["frame_skip"] != "" {
		fs.skip = strings.Fields(strings.ReplaceAll(ct.Options["frame_skip"], ",", " "))
		fg.g.useTrusted("frame of " + fg.name + " not checked for " + ct.Options["frame_skip"] + " (scratch state that no contract observes)")
	}
	fg.fspec = fs
	return fs
}

func hasFrame(ct *Contract) bool {
	return ct != nil && (ct.Pure || len(ct.Modifies) > 0)
}

// frameGoal: "every pre-existing location of heap variable name outside the modifies set has its entry value in st";
// nil when the variable is exempt or syntactically unchanged.
func (fg *FnGen) frameGoal(fs *frameSpec, name string, st *State) *Term {
	for _, p := range fs.skip {
		if strings.HasPrefix(name, p) {
			return nil
		}
	}
	if fs.allowed[name] || strings.HasPrefix(name, "it:") || strings.HasPrefix(name, "defer:") || strings.HasPrefix(name, "ghost:") {
		return nil
	}
	srt := fg.stateSorts[name]
	vinit := fg.lookup(fg.initState, name, srt)
	vfin := fg.lookup(st, name, srt)
	if same(vfin, vinit) {
		return nil
	}
	if strings.HasPrefix(srt, "(Array Int ") {
		r := Bound(fg.freshName("fr"), SInt)
		guard := And(Ge(r, IntLit(1)), Le(r, fg.refLimit()))
		if name == "MemB" {
			for _, b := range fs.byteBases {
				guard = And(guard, Neq(r, b))
			}
		}
		for _, b := range fs.elemBases[name] {
			guard = And(guard, Neq(r, b))
		}
		return Forall([]*Term{r}, Implies(guard, Eq(Select(vfin, r), Select(vinit, r))))
	}
	return Eq(vfin, vinit)
}

func (fg *FnGen) frameObligations(fr *Frame, ct *Contract) {
	fs := fg.frameSpecFor(fr, ct)
	// make sure the probe variable exists: it changes only through havoc-all
	fg.lookup(fg.initState, probeVar, ArraySort(SInt, SInt))
	var names []string
	for n := range fg.stateSorts {
		names = append(names, n)
	}
	sort.Strings(names)
	for _, name := range names {
		var goals []*Term
		for _, rs := range fr.rets {
			if goal := fg.frameGoal(fs, name, rs.state); goal != nil {
				goals = append(goals, Implies(rs.reach, goal))
			}
		}
		if len(goals) == 0 {
			continue
		}
		label := "frame:" + name
		if name == probeVar {
			label = "frame:unknown-effects"
		}
		o := fg.addObl("frame", label, True, And(goals...), fg.fn.Pos(), "")
		if o != nil && name == probeVar {
			o.Note = "a call with unknown effects (no contract, not inlineable, not on the effects list) is reachable; the pure/modifies clause cannot be established"
		}
	}
}

// loopFrameVars: the heap variables a loop writes, for which the frame condition is carried as an invariant.
func (fg *FnGen) loopFrameVars(fr *Frame, li *loopInfo) []string {
	if !hasFrame(fg.ct) || fg.fn == nil {
		return nil
	}
	set, all := fg.loopWrites(fr, li)
	if all {
		return nil
	}
	var names []string
	for n := range set {
		if _, ok := fg.stateSorts[n]; ok {
			names = append(names, n)
		}
	}
	sort.Strings(names)
	return names
}

// assumeLoopFrame: at a loop header, the frame condition holds for the havocked heap variables (it is proved on entry
// and on every back edge by checkLoopFrame).
func (fg *FnGen) assumeLoopFrame(fr *Frame, li *loopInfo, hst *State) {
	if !hasFrame(fg.ct) {
		return
	}
	fs := fg.frameSpecFor(fr, fg.ct)
	for _, name := range fg.loopFrameVars(fr, li) {
		if goal := fg.frameGoal(fs, name, hst); goal != nil {
			fg.assumeIf(fr.reach[li.header], goal)
		}
	}
}

func (fg *FnGen) checkLoopFrame(fr *Frame, li *loopInfo, from *ssa.BasicBlock, st *State, which string, guard *Term) {
	if !hasFrame(fg.ct) {
		return
	}
	fs := fg.frameSpecFor(fr, fg.ct)
	for _, name := range fg.loopFrameVars(fr, li) {
		goal := fg.frameGoal(fs, name, st)
		if goal == nil {
			continue
		}
		label := fmt.Sprintf("inv:loop%d:%s:frame:%s", li.ordinal, which, name)
		if which == "keep" && len(li.back) > 1 {
			label += fmt.Sprintf("@b%d", from.Index)
		}
		fg.addObl("inv-"+which, label, guard, goal, li.header.Instrs[0].Pos(), "")
	}
}
