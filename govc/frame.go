package main

// Frame obligations: a function whose contract says `pure` or `modifies ...` must leave every pre-existing heap
// location outside the modifies set unchanged (allocations made by the function are > reflimit and are free).

import (
	"fmt"
	"sort"
	"strings"
)

const probeVar = "HP:$probe"

func (fg *FnGen) frameObligations(fr *Frame, ct *Contract) {
	allowed := map[string]bool{}
	var byteBases []*Term
	env := fg.baseEnv(fr, fg.initState)
	for _, m := range ct.Modifies {
		if m == "nothing" {
			continue
		}
		if strings.HasPrefix(m, "bytes(") && strings.HasSuffix(m, ")") {
			ce, err := ParseCE(m[6 : len(m)-1])
			if err == nil {
				if v, err2 := env.eval(ce); err2 == nil && v.T != nil && v.T.Sort == SSlice {
					byteBases = append(byteBases, SBase(v.T))
					continue
				}
			}
			fg.bindFailure("frame:modifies", fmt.Errorf("cannot evaluate %s", m), fg.fn.Pos())
			allowed["MemB"] = true
			continue
		}
		allowed[m] = true
	}
	// make sure the probe variable exists: it changes only through havoc-all
	fg.lookup(fg.initState, probeVar, ArraySort(SInt, SInt))
	var names []string
	for n := range fg.stateSorts {
		names = append(names, n)
	}
	sort.Strings(names)
	var skip []string
	if ct.Options["frame_skip"] != "" {
		skip = strings.Fields(strings.ReplaceAll(ct.Options["frame_skip"], ",", " "))
		fg.g.useTrusted("frame of " + fg.name + " not checked for " + ct.Options["frame_skip"] + " (scratch state that no contract observes)")
	}
	for _, name := range names {
		skipped := false
		for _, p := range skip {
			if strings.HasPrefix(name, p) {
				skipped = true
			}
		}
		if skipped {
			continue
		}
		if allowed[name] || strings.HasPrefix(name, "it:") || strings.HasPrefix(name, "defer:") || strings.HasPrefix(name, "ghost:") {
			continue
		}
		srt := fg.stateSorts[name]
		vinit := fg.lookup(fg.initState, name, srt)
		var goals []*Term
		for _, rs := range fr.rets {
			vfin := fg.lookup(rs.state, name, srt)
			if same(vfin, vinit) {
				continue
			}
			var goal *Term
			if strings.HasPrefix(srt, "(Array Int ") {
				r := Bound(fg.freshName("fr"), SInt)
				guard := And(Ge(r, IntLit(1)), Le(r, fg.refLimit()))
				if name == "MemB" {
					for _, b := range byteBases {
						guard = And(guard, Neq(r, b))
					}
				}
				goal = Forall([]*Term{r}, Implies(guard, Eq(Select(vfin, r), Select(vinit, r))))
			} else {
				goal = Eq(vfin, vinit)
			}
			goals = append(goals, Implies(rs.reach, goal))
		}
		if len(goals) == 0 {
			continue
		}
		label := "frame:" + name
		if name == probeVar {
			label = "frame:unknown-effects"
		}
		o := fg.addObl("frame", label, True, And(goals...), fg.fn.Pos(), "")
		if o != nil && name == probeVar {
			o.Note = "a call with unknown effects (no contract, not inlineable, not on the effects list) is reachable; the pure/modifies clause cannot be established"
		}
	}
}
