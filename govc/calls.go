package main

import (
	"fmt"
	"go/token"
	"go/types"
	"path"
	"strings"

	"golang.org/x/tools/go/ssa"
)

// shortDesc turns "(*github.com/openfga/openfga/pkg/server.Server).checkAuthz" into "(*server.Server).checkAuthz".
func shortDesc(s string) string {
	var sb strings.Builder
	i := 0
	for i < len(s) {
		// find a path-like token: sequence of chars until one of "()*[], "
		j := i
		for j < len(s) && !strings.ContainsRune("()*[], ", rune(s[j])) {
			j++
		}
		tok := s[i:j]
		if k := strings.LastIndexByte(tok, '/'); k >= 0 {
			tok = tok[k+1:]
		}
		sb.WriteString(tok)
		if j < len(s) {
			sb.WriteByte(s[j])
		}
		i = j + 1
	}
	return sb.String()
}

func globMatch(pat, s string) bool {
	ok, _ := path.Match(strings.ReplaceAll(pat, "/", "\x00"), strings.ReplaceAll(s, "/", "\x00"))
	return ok
}

type callDesc struct {
	static *ssa.Function
	method *types.Func // invoke
	recvT  types.Type
	full   string // canonical full name
	short  string
	sig    *types.Signature
}

func (fg *FnGen) describeCall(c *ssa.CallCommon) callDesc {
	d := callDesc{sig: c.Signature()}
	if c.IsInvoke() {
		d.method = c.Method
		d.recvT = c.Value.Type()
		tn := types.TypeString(c.Value.Type(), nil)
		if k := strings.IndexByte(tn, '['); k >= 0 {
			tn = tn[:k]
		}
		d.full = tn + "." + c.Method.Name()
		d.short = shortDesc(d.full)
		return d
	}
	if f := c.StaticCallee(); f != nil {
		d.static = f
		d.full = f.String()
		if f.Origin() != nil {
			d.full = f.Origin().String()
		}
		d.short = shortDesc(d.full)
		return d
	}
	if b, ok := c.Value.(*ssa.Builtin); ok {
		d.full = "builtin." + b.Name()
		d.short = d.full
		if b.Name() == "append" && len(c.Args) > 0 {
			// a monitor rule can name the element type: builtin.append:keys.frame ([]frame), builtin.append:string
			if sl, ok := c.Args[0].Type().Underlying().(*types.Slice); ok {
				et := sl.Elem()
				if p, ok := et.Underlying().(*types.Pointer); ok {
					et = p.Elem()
				}
				switch t := types.Unalias(et).(type) {
				case *types.Named:
					if t.Obj().Pkg() != nil {
						d.short = d.full + ":" + t.Obj().Pkg().Name() + "." + t.Obj().Name()
					}
				case *types.Basic:
					d.short = d.full + ":" + t.Name()
				default:
					d.short = d.full + ":other"
				}
			}
		}
		return d
	}
	d.full = "dynamic"
	d.short = "dynamic"
	// calling a function-typed struct field or variable: name it by the value for monitors
	if u, ok := c.Value.(*ssa.UnOp); ok {
		if fa, ok := u.X.(*ssa.FieldAddr); ok {
			if st, _, ok := isStructPtr(fa.X.Type()); ok {
				d.short = "field:" + st.Field(fa.Field).Name()
				d.full = d.short
			}
		}
	}
	return d
}

func (fg *FnGen) callWrites(x ssa.CallInstruction, set map[string]bool, all *bool, depth int) {
	c := x.Common()
	d := fg.describeCall(c)
	if _, ok := x.(*ssa.Go); ok {
		*all = true
		return
	}
	if _, ok := x.(*ssa.Defer); ok {
		return // accounted for at RunDefers
	}
	for _, m := range fg.monitors {
		for _, r := range m.Rules {
			if r.Kind == "after" && matchAny(r.Callees, d) {
				for _, gs := range r.Sets {
					set["ghost:"+gs.Name] = true
				}
			}
		}
	}
	if b, ok := c.Value.(*ssa.Builtin); ok {
		switch b.Name() {
		case "append", "copy":
			if len(c.Args) > 0 {
				if sl, ok := c.Args[0].Type().Underlying().(*types.Slice); ok {
					n, _, _ := fg.memVar(sl.Elem())
					set[n] = true
				}
			}
		case "delete":
			*all = true
		}
		return
	}
	if ct := fg.g.contractFor(d); ct != nil {
		if ct.Pure {
			return
		}
		if len(ct.Modifies) > 0 {
			for _, m := range ct.Modifies {
				if strings.HasPrefix(m, "bytes(") {
					m = "MemB"
				}
				if strings.HasPrefix(m, "elems(") {
					for _, a := range c.Args {
						if sl, ok := a.Type().Underlying().(*types.Slice); ok {
							n, _, _ := fg.memVar(sl.Elem())
							set[n] = true
						}
					}
					continue
				}
				set[m] = true
			}
			return
		}
		*all = true
		return
	}
	if nativeModel[d.full] {
		for _, w := range nativeWrites[d.full] {
			set[w] = true
		}
		return
	}
	if fg.g.isPure(d) {
		return
	}
	if d.static != nil && depth < 4 && fg.inlineable(d.static, depth) {
		for _, b := range d.static.Blocks {
			for _, ins := range b.Instrs {
				fg.instrWrites(d.static, ins, set, all, depth+1)
			}
		}
		return
	}
	*all = true
}

func matchAny(pats []string, d callDesc) bool {
	for _, p := range pats {
		if globMatch(p, d.short) || globMatch(p, d.full) {
			return true
		}
	}
	return false
}

var nativeModel = map[string]bool{
	"strings.IndexByte": true, "strings.LastIndexByte": true, "strings.Cut": true, "strings.HasPrefix": true,
	"strings.HasSuffix": true, "strings.Contains": true, "strings.TrimPrefix": true, "strings.TrimSuffix": true, "strings.Index": true,
	"(*strings.Builder).Grow": true, "(*strings.Builder).WriteString": true, "(*strings.Builder).WriteByte": true,
	"(*strings.Builder).String": true, "(*strings.Builder).Len": true, "(*strings.Builder).Reset": true,
	"fmt.Errorf": true, "fmt.Sprintf": true, "errors.New": true, "errors.Is": true, "fmt.Sprint": true,
	"strconv.Itoa": true, "strconv.Atoi": true, "unicode.IsControl": true, "unicode.IsSpace": true,
	"unsafe.String": true, "unsafe.SliceData": true, "unsafe.StringData": true,
	"strings.Compare": true, "strings.ContainsRune": true, "strings.IndexRune": true, "strings.Join": true,
	"(time.Time).After": true, "(time.Time).Before": true, "(time.Time).IsZero": true, "(time.Time).Equal": true,
	"(time.Time).Add": true, "(time.Time).Sub": true, "time.Now": true, "time.Since": true,
	"errors.As": true, "errors.Join": true,
	"slices.Contains": true,
}

var nativeWrites = map[string][]string{
	"(*strings.Builder).Grow":        nil,
	"(*strings.Builder).WriteString": {"H:strings.Builder.$content"},
	"(*strings.Builder).WriteByte":   {"H:strings.Builder.$content"},
	"(*strings.Builder).Reset":       {"H:strings.Builder.$content"},
}

const sbVar = "H:strings.Builder.$content"

var sbSort = ArraySort(SInt, SString)

func (fg *FnGen) freshResults(fr *Frame, name string, sig *types.Signature) []*Term {
	var out []*Term
	for i := 0; i < sig.Results().Len(); i++ {
		t := sig.Results().At(i).Type()
		c := fg.freshConst(fmt.Sprintf("%s%s_r%d", fr.prefix, name, i), fg.g.ti.sortOf(t))
		fg.assumeValid(c, t, True)
		out = append(out, c)
	}
	return out
}

func (fg *FnGen) setResults(fr *Frame, v ssa.Value, res []*Term) {
	if v == nil {
		return
	}
	switch len(res) {
	case 0:
	case 1:
		fr.vals[v] = res[0]
	default:
		fr.tuples[v] = res
	}
}

func (fg *FnGen) call(fr *Frame, x *ssa.Call, st *State, reach *Term) *State {
	res, st2 := fg.doCall(fr, x, x.Common(), st, reach, x.Pos(), x.Name())
	fg.setResults(fr, x, res)
	return st2
}

func (fg *FnGen) deferredCall(fr *Frame, d *ssa.Defer, st *State, reach *Term) *State {
	if fg.ct != nil && fg.ct.Options["defer_neutral"] != "" && fr.top {
		if dc := fg.describeCall(d.Common()); dc.full == "dynamic" {
			// option defer_neutral: a deferred clean-up closure (span end, unlock, release) obtained from a helper is assumed not
			// to touch the objects this function's contract talks about
			fg.g.useTrusted("deferred clean-up closures are heap-neutral in " + fg.name + " (option defer_neutral)")
			return st
		}
	}
	_, st2 := fg.doCall(fr, d, d.Common(), st, reach, d.Pos(), "defer_"+fmt.Sprint(len(fr.defers)))
	return st2
}

func (fg *FnGen) doCall(fr *Frame, site ssa.Instruction, c *ssa.CallCommon, st *State, reach *Term, pos token.Pos, name string) ([]*Term, *State) {
	d := fg.describeCall(c)
	var args []*Term
	var argTypes []types.Type
	if c.IsInvoke() {
		args = append(args, fg.val(fr, c.Value))
		argTypes = append(argTypes, c.Value.Type())
		if fg.g.contractFor(d) == nil && fg.g.isPure(d) {
			fg.g.useTrusted("receivers of effects-list interface calls (tracer, span, logger, metrics, context) are non-nil")
		} else {
			fg.safety("nil", reach, Neq(ITag(args[0]), IntLit(0)), pos)
		}
	}
	for _, a := range c.Args {
		args = append(args, fg.val(fr, a))
		argTypes = append(argTypes, a.Type())
	}
	// monitors: before
	fg.monitorBefore(fr, d, args, argTypes, st, reach, pos)
	res, st2 := fg.dispatchCall(fr, site, c, d, args, argTypes, st, reach, pos, name)
	fg.bumpClock(res, d.sig)
	fg.preCallState = st
	st2 = fg.monitorAfter(fr, d, args, res, argTypes, st2, reach)
	fg.preCallState = nil
	return res, st2
}

func (fg *FnGen) dispatchCall(fr *Frame, site ssa.Instruction, c *ssa.CallCommon, d callDesc, args []*Term, argTypes []types.Type,
	st *State, reach *Term, pos token.Pos, name string) ([]*Term, *State) {
	if b, ok := c.Value.(*ssa.Builtin); ok {
		return fg.builtin(fr, b, c, args, st, reach, pos, name)
	}
	if ex, ok := c.Value.(*ssa.Extract); ok && ex.Index == 1 {
		if mk, ok := ex.Tuple.(*ssa.Call); ok {
			if sf := mk.Call.StaticCallee(); sf != nil {
				switch sf.String() {
				case "context.WithCancel", "context.WithTimeout", "context.WithDeadline", "context.WithCancelCause":
					// calling a context.CancelFunc only cancels that context: nothing the contracts talk about changes
					fg.g.useTrusted("context.CancelFunc calls are heap-neutral")
					return fg.freshResults(fr, name, d.sig), st
				}
			}
		}
	}
	if ct := fg.g.contractFor(d); ct != nil && !(fr.top && fg.ct == ct && false) {
		return fg.applyContract(fr, ct, d, args, argTypes, st, reach, pos, name)
	}
	if nativeModel[d.full] {
		if res, st2, ok := fg.native(fr, d, c, args, st, reach, pos, name); ok {
			return res, st2
		}
	}
	if fg.g.isFunction(d) {
		// effects list, "function <pattern>": the call leaves the heap unchanged and its results are a function of the
		// callee value and the arguments (two calls with equal arguments give equal results) — an assumption, listed
		fg.g.useTrusted("effects list (assumed to be a deterministic function of its arguments, heap unchanged): " + d.short)
		uargs := args
		if d.static == nil {
			// a call through a function value: the value is part of the function's identity
			uargs = append([]*Term{fg.val(fr, c.Value)}, args...)
		}
		var res []*Term
		for i := 0; i < d.sig.Results().Len(); i++ {
			srt := fg.g.ti.sortOf(d.sig.Results().At(i).Type())
			res = append(res, App(fmt.Sprintf("uf:%s#%d", sanitize(d.short), i), srt, uargs...))
		}
		return res, st
	}
	if fg.g.isPure(d) {
		fg.g.usePure(d.short)
		return fg.freshResults(fr, name, d.sig), st
	}
	if d.static != nil && fg.inlineable(d.static, fr.depth) && !fg.onStack(fr, d.static) {
		if _, isClosure := c.Value.(*ssa.MakeClosure); !isClosure {
			if res, ok := fg.leafApply(fr, d.static, args, st); ok {
				// the value a getter returns is a well-formed Go value of its type (slice header, integer range)
				if !fg.noDefs {
					for i, r := range res {
						if i < d.sig.Results().Len() && !hasBound(r) {
							switch d.sig.Results().At(i).Type().Underlying().(type) {
							case *types.Slice, *types.Interface:
								fg.assumeValid(r, d.sig.Results().At(i).Type(), reach)
							}
						}
					}
				}
				return res, st
			}
		}
		fg.pendingBindings = nil
		if mc, ok := c.Value.(*ssa.MakeClosure); ok {
			for _, b := range mc.Bindings {
				fg.pendingBindings = append(fg.pendingBindings, fg.val(fr, b))
			}
		}
		hc, na, no := fg.havocCount, len(fg.assumes), len(fg.obls)
		ires, ist := fg.inline(fr, d.static, args, st, reach, name)
		if fg.havocCount > hc && len(d.static.FreeVars) == 0 && allValueOnly(argTypes) {
			// the inlined body reached a call with unknown effects, but the callee only received values: it cannot reach
			// the caller's objects; keep the heap, forget the imprecise inlining
			fg.assumes, fg.obls = fg.assumes[:na], fg.obls[:no]
			fg.g.useTrusted("calls that pass only value-typed arguments leave the caller-visible heap unchanged: " + d.short)
			return fg.freshResults(fr, name, d.sig), st
		}
		return ires, ist
	}
	// a callee that receives only value-typed arguments (no pointers, slices, maps, interfaces, funcs) cannot reach the
	// caller's objects except through package-level state
	if d.static != nil && len(d.static.FreeVars) == 0 {
		allValues := true
		for _, t := range argTypes {
			if !valueOnly(t, 0) {
				allValues = false
			}
		}
		if allValues {
			fg.g.useTrusted("calls that pass only value-typed arguments leave the caller-visible heap unchanged: " + d.short)
			return fg.freshResults(fr, name, d.sig), st
		}
	}
	// unknown callee: results arbitrary, heap arbitrary
	fg.note("call to " + d.short + " havocs the heap (no contract, not inlineable, not on the effects list)")
	return fg.freshResults(fr, name, d.sig), fg.havocCall(st, reach)
}

func (fg *FnGen) onStack(fr *Frame, f *ssa.Function) bool {
	for _, g := range fr.stack {
		if g == f {
			return true
		}
	}
	return fr.fn == f
}

func (fg *FnGen) inlineable(f *ssa.Function, depth int) bool {
	if v, ok := fg.g.inlineCache[f]; ok {
		return v && depth < 5
	}
	if len(f.Blocks) == 0 && f.Pkg != nil {
		// on-demand SSA construction of dependency packages (idempotent); go/ssa can panic while building instantiation
		// wrappers of some generic standard-library functions: such a callee is simply not inlined
		func() {
			defer func() {
				if r := recover(); r != nil {
					fg.note("go/ssa could not build " + f.Pkg.Pkg.Path() + " on demand: its functions are not inlined")
				}
			}()
			f.Pkg.Build()
		}()
	}
	ok := true
	if len(f.Blocks) == 0 || f.Recover != nil {
		ok = false
	}
	n := 0
	for _, b := range f.Blocks {
		for _, s := range b.Succs {
			if isBackEdge(b, s) {
				ok = false
			}
		}
		for _, ins := range b.Instrs {
			n++
			switch ins.(type) {
			case *ssa.Go, *ssa.Select, *ssa.Defer, *ssa.Send, *ssa.MakeClosure, *ssa.Panic:
				ok = false
			case *ssa.UnOp:
				if ins.(*ssa.UnOp).Op == token.ARROW {
					ok = false
				}
			}
		}
	}
	if n > 60 {
		ok = false
	}
	if ct := fg.g.contracts[f.String()]; ct != nil {
		ok = false
	}
	fg.g.inlineCache[f] = ok
	return ok && depth < 5
}

func (fg *FnGen) inline(fr *Frame, f *ssa.Function, args []*Term, st *State, reach *Term, name string) ([]*Term, *State) {
	fg.fresh++
	sub := fg.newFrame(f, fr.depth+1, fmt.Sprintf("%s%s#%d~%s~", fr.prefix, name, fg.fresh, f.Name()))
	sub.stack = append(append([]*ssa.Function{}, fr.stack...), f)
	for i, p := range f.Params {
		if i < len(args) {
			sub.vals[p] = args[i]
		}
	}
	for i, fv := range f.FreeVars {
		if i < len(fg.pendingBindings) {
			sub.vals[fv] = fg.pendingBindings[i]
		}
	}
	fg.pendingBindings = nil
	fg.runBlocks(sub, st, reach)
	fg.g.inlined[f.String()] = true
	if len(sub.rets) == 0 {
		// never returns (always panics)
		fg.assumeIf(reach, False)
		return fg.freshResults(fr, name, f.Signature), st
	}
	if len(sub.rets) == 1 {
		return sub.rets[0].results, sub.rets[0].state
	}
	nres := len(sub.rets[0].results)
	out := make([]*Term, nres)
	for k := 0; k < nres; k++ {
		def := sub.rets[len(sub.rets)-1].results[k]
		for i := len(sub.rets) - 2; i >= 0; i-- {
			def = Ite(sub.rets[i].reach, sub.rets[i].results[k], def)
		}
		if def.Kind == KApp && def.Op == "ite" && !fg.noDefs {
			c := fg.freshConst(fmt.Sprintf("%s%s_ret%d", fr.prefix, name, k), def.Sort)
			fg.assume(Eq(c, def))
			def = c
		}
		out[k] = def
	}
	var preds []genPred
	for _, r := range sub.rets {
		preds = append(preds, genPred{cond: r.reach, st: r.state})
	}
	g := fg.newGen(&genInfo{kind: "merge", preds: preds})
	return out, &State{gen: g, over: map[string]*Term{}}
}

// applyContract: assert requires, havoc modifies, assume ensures.
func (fg *FnGen) applyContract(fr *Frame, ct *Contract, d callDesc, args []*Term, argTypes []types.Type, st *State, reach *Term,
	pos token.Pos, name string) ([]*Term, *State) {
	env := &Env{fg: fg, vars: map[string]CVal{}, st: st, reach: reach, pkg: fg.g.pkgByPath[ct.Pkg]}
	bind := func(n string, i int) {
		if n != "" && n != "_" && i < len(args) {
			env.vars[n] = CVal{T: args[i], Ty: argTypes[i]}
		}
	}
	if d.static != nil {
		for i, p := range d.static.Params {
			bind(p.Name(), i)
		}
	}
	if len(ct.ParamNames) == len(args) {
		for i, n := range ct.ParamNames {
			bind(n, i)
		}
	} else if d.static == nil && len(ct.ParamNames)+1 == len(args) {
		// interface method contract without receiver name
		for i, n := range ct.ParamNames {
			bind(n, i+1)
		}
		env.vars["recv"] = CVal{T: args[0], Ty: argTypes[0]}
	}
	if ct.Trusted {
		fg.g.useTrusted("trusted contract: " + ct.Key)
	} else {
		fg.g.usedContracts[ct.Key] = true
	}
	k := fg.ordinal("pre@" + d.short)
	for _, r := range ct.Requires {
		v, err := env.evalBool(r.Expr)
		label := fmt.Sprintf("pre@%s:%d:%s", d.short, k, r.Label)
		if err != nil {
			fg.bindFailure(label, err, pos)
			continue
		}
		o := fg.addObl("pre", label, reach, v, pos, r.Src)
		if o != nil {
			o.clause = r
		}
		fg.assumeIf(reach, v)
	}
	st2 := st
	if !ct.Pure {
		if len(ct.Modifies) > 0 {
			set := map[string]bool{}
			var byteTargets []*Term
			type elemTarget struct {
				mem, srt string
				sl       *Term
			}
			var elemTargets []elemTarget
			for _, m := range ct.Modifies {
				if strings.HasPrefix(m, "bytes(") && strings.HasSuffix(m, ")") {
					ce, err := ParseCE(m[6 : len(m)-1])
					if err == nil {
						if v, err2 := env.eval(ce); err2 == nil && v.T != nil && v.T.Sort == SSlice {
							byteTargets = append(byteTargets, v.T)
							continue
						}
					}
					fg.bindFailure(fmt.Sprintf("modifies@%s", d.short), fmt.Errorf("cannot evaluate %s", m), pos)
					set["MemB"] = true
					continue
				}
				if strings.HasPrefix(m, "elems(") && strings.HasSuffix(m, ")") {
					// only the backing array of this (non-byte) slice changes
					if ce, err := ParseCE(m[6 : len(m)-1]); err == nil {
						if v, err2 := env.eval(ce); err2 == nil && v.T != nil && v.T.Sort == SSlice && v.Ty != nil {
							if sl, ok := v.Ty.Underlying().(*types.Slice); ok {
								if mn, ms, isB := fg.memVar(sl.Elem()); !isB {
									elemTargets = append(elemTargets, elemTarget{mn, ms, v.T})
									continue
								}
							}
						}
					}
					fg.bindFailure(fmt.Sprintf("modifies@%s", d.short), fmt.Errorf("cannot evaluate %s", m), pos)
					continue
				}
				set[m] = true
			}
			st2 = fg.havocSet(st, set)
			for _, et := range elemTargets {
				if set[et.mem] {
					continue
				}
				mem := fg.lookup(st2, et.mem, et.srt)
				row := fg.freshConst(fr.prefix+name+"_elems", et.srt[len("(Array Int "):len(et.srt)-1])
				st2 = st2.clone()
				fg.set(st2, et.mem, et.srt, Store(mem, SBase(et.sl), row))
			}
			if len(byteTargets) > 0 && !set["MemB"] {
				hs := ArraySort(SInt, SString)
				mem := fg.lookup(st2, "MemB", hs)
				for _, bt := range byteTargets {
					nb := fg.freshConst(fr.prefix+name+"_mod", SString)
					fg.assumeIf(reach, Eq(StrLen(nb), StrLen(Select(mem, SBase(bt)))))
					mem = Store(mem, SBase(bt), nb)
				}
				st2 = st2.clone()
				fg.set(st2, "MemB", hs, mem)
			}
		} else {
			st2 = fg.havocCall(st, reach)
		}
	}
	var res []*Term
	if ct.Pure && d.static != nil && pureFunctional(argTypes, d.sig) {
		// a pure function of value-typed arguments is a (deterministic) function of them
		fg.g.useTrusted("pure functions of value-typed arguments are deterministic: " + d.short)
		for i := 0; i < d.sig.Results().Len(); i++ {
			t := d.sig.Results().At(i).Type()
			r := App(fmt.Sprintf("fn:%s#%d", d.short, i), fg.g.ti.sortOf(t), args...)
			if len(args) == 0 {
				r = Const(fmt.Sprintf("fn:%s#%d", d.short, i), fg.g.ti.sortOf(t))
			}
			if !fg.noDefs {
				fg.assumeValid(r, t, True)
			}
			res = append(res, r)
		}
	} else {
		res = fg.freshResults(fr, name, d.sig)
	}
	env2 := &Env{fg: fg, vars: map[string]CVal{}, st: st2, old: env, reach: reach, pkg: env.pkg}
	for n, v := range env.vars {
		env2.vars[n] = v
	}
	for i, rn := range ct.Results {
		if i < len(res) {
			env2.vars[rn] = CVal{T: res[i], Ty: d.sig.Results().At(i).Type()}
		}
	}
	for _, e := range ct.Ensures {
		v, err := env2.evalBool(e.Expr)
		if err != nil {
			if mentionsCalleeGhost(ct, err) || (!ct.Trusted && strings.Contains(err.Error(), "unknown name")) {
				// a clause over the callee's own ghost trace or source-level locals is not visible to callers (it is still an
				// obligation of the callee itself, where a misspelt name shows up as a binding failure)
				continue
			}
			fg.bindFailure(fmt.Sprintf("post@%s:%s", d.short, e.Label), err, pos)
			continue
		}
		fg.assumeIf(reach, v)
	}
	return res, st2
}

// ---------------------------------------------------------------- builtins

func (fg *FnGen) builtin(fr *Frame, b *ssa.Builtin, c *ssa.CallCommon, args []*Term, st *State, reach *Term, pos token.Pos, name string) ([]*Term, *State) {
	ti := fg.g.ti
	switch b.Name() {
	case "len":
		a := args[0]
		switch c.Args[0].Type().Underlying().(type) {
		case *types.Basic:
			return []*Term{StrLen(a)}, st
		case *types.Slice:
			return []*Term{SLen(a)}, st
		case *types.Map:
			mt := c.Args[0].Type().Underlying().(*types.Map)
			dom, _ := fg.mapVars(mt, st)
			l := App("maplen_"+sanitize(ti.sortOf(mt.Key())), SInt, Select(dom, a))
			fg.assume(Ge(l, IntLit(0)))
			fg.assume(Implies(Eq(a, IntLit(0)), Eq(l, IntLit(0))))
			return []*Term{l}, st
		case *types.Array:
			return []*Term{IntLit(c.Args[0].Type().Underlying().(*types.Array).Len())}, st
		case *types.Pointer:
			if arr, ok := c.Args[0].Type().Underlying().(*types.Pointer).Elem().Underlying().(*types.Array); ok {
				return []*Term{IntLit(arr.Len())}, st
			}
		}
		r := fg.freshConst(fr.prefix+name, SInt)
		fg.assume(Ge(r, IntLit(0)))
		return []*Term{r}, st
	case "cap":
		if _, ok := c.Args[0].Type().Underlying().(*types.Slice); ok {
			return []*Term{SCap(args[0])}, st
		}
		r := fg.freshConst(fr.prefix+name, SInt)
		fg.assume(Ge(r, IntLit(0)))
		return []*Term{r}, st
	case "min", "max":
		r := args[0]
		isStr := r.Sort == SString
		for _, a := range args[1:] {
			if isStr {
				return fg.freshResults(fr, name, c.Signature()), st
			}
			if b.Name() == "min" {
				r = Ite(Le(r, a), r, a)
			} else {
				r = Ite(Ge(r, a), r, a)
			}
		}
		return []*Term{r}, st
	case "copy":
		return fg.copyBuiltin(fr, c, args, st, reach, name)
	case "append":
		return fg.appendBuiltin(fr, c, args, st, reach, name)
	case "delete":
		mt := c.Args[0].Type().Underlying().(*types.Map)
		dn, ds, _, _ := fg.mapVarNames(mt)
		dom := fg.lookup(st, dn, ds)
		fg.set(st, dn, ds, Store(dom, args[0], Store(Select(dom, args[0]), args[1], False)))
		return nil, st
	case "print", "println":
		return nil, st
	case "recover":
		fg.note("recover() abstracted: returns an arbitrary value")
		return fg.freshResults(fr, name, c.Signature()), st
	case "close":
		fg.note("close(chan) abstracted (no-op)")
		return nil, st
	case "clear":
		return nil, fg.havocAll(st)
	case "ssa:wrapnilchk":
		fg.safety("nil", reach, Neq(args[0], IntLit(0)), pos)
		return []*Term{args[0]}, st
	case "String": // unsafe.String(ptr, len)
		return fg.unsafeString(fr, c, args, st, reach, name)
	case "SliceData", "StringData":
		// pointer to first element: keep the slice itself as the "pointer" token
		fr.fresh()
		r := fg.freshConst(fr.prefix+name, SInt)
		fg.g.sliceDataOf[r.Op] = sliceDataInfo{slice: args[0], isString: b.Name() == "StringData"}
		return []*Term{r}, st
	}
	fg.note("builtin " + b.Name() + " not modelled: result arbitrary")
	return fg.freshResults(fr, name, c.Signature()), st
}

func (fr *Frame) fresh() {}

type sliceDataInfo struct {
	slice    *Term
	isString bool
}

func (fg *FnGen) unsafeString(fr *Frame, c *ssa.CallCommon, args []*Term, st *State, reach *Term, name string) ([]*Term, *State) {
	// recognised idiom: unsafe.String(unsafe.SliceData(b), n) == string(b[:n]) for 0 <= n <= len(b)
	if info, ok := fg.g.sliceDataOf[args[0].Op]; ok && !info.isString {
		s := info.slice
		n := args[1]
		fg.safety("unsafestring", reach, And(Ge(n, IntLit(0)), Le(n, SCap(s))), c.Pos())
		mem := fg.lookup(st, "MemB", ArraySort(SInt, SString))
		bs := Select(mem, SBase(s))
		fg.assumeIf(reach, Ge(StrLen(bs), Add(SOff(s), SCap(s))))
		fg.g.useTrusted("unsafe.String(unsafe.SliceData(b), n) is the string of the first n bytes of b (aliasing of the result with b not modelled)")
		return []*Term{Substr(bs, SOff(s), n)}, st
	}
	fg.note("unsafe.String with untracked pointer: result arbitrary")
	r := fg.freshConst(fr.prefix+name, SString)
	fg.assume(Eq(StrLen(r), args[1]))
	return []*Term{r}, st
}

func (fg *FnGen) copyBuiltin(fr *Frame, c *ssa.CallCommon, args []*Term, st *State, reach *Term, name string) ([]*Term, *State) {
	dst := args[0]
	dstT := c.Args[0].Type().Underlying().(*types.Slice)
	_, _, isB := fg.memVar(dstT.Elem())
	if isB {
		var src, srcLen *Term
		if args[1].Sort == SString {
			src, srcLen = args[1], StrLen(args[1])
		} else {
			src, srcLen = fg.byteView(args[1], st, reach), SLen(args[1])
		}
		n := Ite(Le(SLen(dst), srcLen), SLen(dst), srcLen)
		nc := fg.freshConst(fr.prefix+name+"_n", SInt)
		fg.assume(Eq(nc, n))
		hs := ArraySort(SInt, SString)
		mem := fg.lookup(st, "MemB", hs)
		bs := Select(mem, SBase(dst))
		fg.assumeIf(reach, Ge(StrLen(bs), Add(SOff(dst), SCap(dst))))
		k := SOff(dst)
		nb := StrCat(Substr(bs, IntLit(0), k), Substr(src, IntLit(0), nc), Substr(bs, Add(k, nc), Sub(StrLen(bs), Add(k, nc))))
		fg.set(st, "MemB", hs, Store(mem, SBase(dst), nb))
		return []*Term{nc}, st
	}
	// generic slices: n elements copied
	src := args[1]
	n := Ite(Le(SLen(dst), SLen(src)), SLen(dst), SLen(src))
	nc := fg.freshConst(fr.prefix+name+"_n", SInt)
	fg.assume(Eq(nc, n))
	mn, ms, _ := fg.memVar(dstT.Elem())
	mem := fg.lookup(st, mn, ms)
	old := Select(mem, SBase(dst))
	srcArr := Select(mem, SBase(src))
	na := fg.freshConst(fr.prefix+name+"_arr", elemSort(ms))
	i := Bound("ci!"+fg.freshName(""), SInt)
	inRange := And(Ge(i, SOff(dst)), Lt(i, Add(SOff(dst), nc)))
	fg.assume(Forall([]*Term{i}, Eq(Select(na, i), Ite(inRange, Select(srcArr, Add(SOff(src), Sub(i, SOff(dst)))), Select(old, i)))))
	fg.set(st, mn, ms, Store(mem, SBase(dst), na))
	return []*Term{nc}, st
}

func (fg *FnGen) appendBuiltin(fr *Frame, c *ssa.CallCommon, args []*Term, st *State, reach *Term, name string) ([]*Term, *State) {
	s := args[0]
	sT := c.Args[0].Type().Underlying().(*types.Slice)
	mn, ms, isB := fg.memVar(sT.Elem())
	mem := fg.lookup(st, mn, ms)
	newBase := fg.freshConst(fr.prefix+name+"_nb", SInt)
	fg.assume(Gt(newBase, fg.refLimit()))
	for _, a := range fg.allocs {
		fg.assume(Gt(newBase, a))
	}
	fg.allocs = []*Term{newBase}
	if len(args) == 1 {
		return []*Term{s}, st
	}
	if isB {
		var add, k *Term
		if args[1].Sort == SString {
			add, k = args[1], StrLen(args[1])
		} else {
			add, k = fg.byteView(args[1], st, reach), SLen(args[1])
		}
		bs := Select(mem, SBase(s))
		fg.assumeIf(And(reach, Neq(SBase(s), IntLit(0))), Ge(StrLen(bs), Add(SOff(s), SCap(s))))
		// Model: the result is a fresh backing array holding the old bytes followed by the new ones (Go may extend the old
		// array in place; bytes of that array beyond len(s) are assumed not to be observed through other slices afterwards).
		pad := fg.freshConst(fr.prefix+name+"_pad", SString)
		view := Substr(bs, SOff(s), SLen(s))
		if !(SBase(s).isSmallInt() && SBase(s).Int != 0) {
			view = Ite(Eq(SBase(s), IntLit(0)), StrLit(""), view)
		}
		// name the two parts so that lengths stay syntactic: len(result) = len(old view) + len(added)
		vc := fg.freshConst(fr.prefix+name+"_old", SString)
		fg.assume(Eq(vc, view))
		fg.assumeIf(reach, Eq(StrLen(vc), SLen(s)))
		ac := add
		if add.Kind != KConst && add.Kind != KStrLit {
			ac = fg.freshConst(fr.prefix+name+"_add", SString)
			fg.assume(Eq(ac, add))
			fg.assumeIf(reach, Eq(StrLen(ac), k))
		}
		newLen := Add(StrLen(vc), StrLen(ac))
		rc := MkSlice(newBase, IntLit(0), newLen, Add(newLen, StrLen(pad)))
		fg.g.useTrusted("append on byte slices is modelled as a non-aliasing copy (in-place extension of a shared backing array is not observed through other slices)")
		fg.set(st, mn, ms, Store(mem, newBase, StrCat(vc, ac, pad)))
		return []*Term{rc}, st
	}
	// generic element slices: args[1] is a slice of new elements.
	// Model: the result is a fresh backing array holding the old elements followed by the new ones. (Go may instead
	// extend the old backing array in place; elements visible through other slices of that array beyond len(s) are
	// assumed not to be observed afterwards - listed as an assumption.)
	add := args[1]
	k := SLen(add)
	newLen := Add(SLen(s), k)
	ncap := fg.freshConst(fr.prefix+name+"_ncap", SInt)
	fg.assume(Ge(ncap, newLen))
	rc := MkSlice(newBase, IntLit(0), newLen, ncap)
	oldArr := Select(mem, SBase(s))
	addArr := Select(mem, SBase(add))
	na := fg.freshConst(fr.prefix+name+"_arr", elemSort(ms))
	i := Bound("ai!"+fg.freshName(""), SInt)
	fg.assume(Forall([]*Term{i}, Implies(And(Ge(i, IntLit(0)), Lt(i, SLen(s))), Eq(Select(na, i), Select(oldArr, Add(SOff(s), i))))))
	if k.isSmallInt() && k.Int >= 0 && k.Int <= 4 {
		for j := int64(0); j < k.Int; j++ {
			fg.assume(Eq(Select(na, Add(SLen(s), IntLit(j))), Select(addArr, Add(SOff(add), IntLit(j)))))
		}
	} else {
		fg.assume(Forall([]*Term{i}, Implies(And(Ge(i, IntLit(0)), Lt(i, k)), Eq(Select(na, Add(SLen(s), i)), Select(addArr, Add(SOff(add), i))))))
	}
	fg.g.useTrusted("append on non-byte slices is modelled as a non-aliasing copy (in-place extension of a shared backing array is not observed through other slices)")
	fg.set(st, mn, ms, Store(mem, newBase, na))
	return []*Term{rc}, st
}

// ---------------------------------------------------------------- maps

func (fg *FnGen) mapVarNames(mt *types.Map) (string, string, string, string) {
	ti := fg.g.ti
	ks, vs := ti.sortOf(mt.Key()), ti.sortOf(mt.Elem())
	return "MapD:" + sanitize(ks), ArraySort(SInt, ArraySort(ks, SBool)), "MapV:" + sanitize(ks) + ":" + sanitize(vs), ArraySort(SInt, ArraySort(ks, vs))
}

func (fg *FnGen) mapVars(mt *types.Map, st *State) (*Term, *Term) {
	dn, ds, vn, vs := fg.mapVarNames(mt)
	return fg.lookup(st, dn, ds), fg.lookup(st, vn, vs)
}

func (fg *FnGen) mapInit(t types.Type, ref *Term, st *State) {
	mt := t.Underlying().(*types.Map)
	dn, ds, _, _ := fg.mapVarNames(mt)
	dom := fg.lookup(st, dn, ds)
	empty := &Term{Op: "as-const", Kind: KApp, Sort: elemSort(ds), Args: []*Term{False}}
	fg.set(st, dn, ds, Store(dom, ref, empty))
}

func (fg *FnGen) mapLookup(fr *Frame, x *ssa.Lookup, m, k *Term, st *State, reach *Term) *State {
	mt := x.X.Type().Underlying().(*types.Map)
	dom, val := fg.mapVars(mt, st)
	in := And(Neq(m, IntLit(0)), Select(Select(dom, m), k))
	v := Ite(in, Select(Select(val, m), k), fg.g.ti.zeroOf(mt.Elem()))
	if _, innerIsMap := mt.Elem().Underlying().(*types.Map); innerIsMap && !types.Identical(mt.Elem(), mt) && !fg.noDefs {
		// a map stored in a map of a different type is a different object (objects of different types never alias)
		fg.assumeIf(reach, Neq(Select(Select(val, m), k), m))
	}
	if x.CommaOk {
		fr.tuples[x] = []*Term{v, in}
	} else {
		fr.vals[x] = v
	}
	return st
}

func (fg *FnGen) mapUpdate(fr *Frame, x *ssa.MapUpdate, st *State, reach *Term) *State {
	mt := x.Map.Type().Underlying().(*types.Map)
	m, k, v := fg.val(fr, x.Map), fg.val(fr, x.Key), fg.val(fr, x.Value)
	fg.safety("nilmap", reach, Neq(m, IntLit(0)), x.Pos())
	if fr.top && len(fg.monitors) > 0 {
		// monitors can watch map stores: before call builtin.mapupdate args m, k, v : assert ...
		// the rule names the value type: builtin.mapupdate:openfgav1.Relation for a map[...]*openfgav1.Relation
		vn := "other"
		vt := mt.Elem()
		if p, ok := vt.Underlying().(*types.Pointer); ok {
			vt = p.Elem()
		}
		if n, ok := types.Unalias(vt).(*types.Named); ok && n.Obj().Pkg() != nil {
			vn = n.Obj().Pkg().Name() + "." + n.Obj().Name()
		}
		d := callDesc{full: "builtin.mapupdate:" + vn, short: "builtin.mapupdate:" + vn}
		fg.monitorBefore(fr, d, []*Term{m, k, v}, []types.Type{x.Map.Type(), x.Key.Type(), x.Value.Type()}, st, reach, x.Pos())
	}
	dn, ds, vn, vs := fg.mapVarNames(mt)
	dom, val := fg.lookup(st, dn, ds), fg.lookup(st, vn, vs)
	fg.set(st, dn, ds, Store(dom, m, Store(Select(dom, m), k, True)))
	fg.set(st, vn, vs, Store(val, m, Store(Select(val, m), k, v)))
	return st
}

// ---------------------------------------------------------------- native models of standard-library functions

func (fg *FnGen) native(fr *Frame, d callDesc, c *ssa.CallCommon, args []*Term, st *State, reach *Term, pos token.Pos, name string) ([]*Term, *State, bool) {
	fg.g.useTrusted("built-in contract: " + d.full)
	one := func(t *Term) ([]*Term, *State, bool) { return []*Term{t}, st, true }
	fresh := func(sort string) *Term { return fg.freshConst(fr.prefix+name, sort) }
	switch d.full {
	case "strings.IndexByte":
		return one(fg.indexByte(args[0], args[1], fr.prefix+name))
	case "strings.LastIndexByte":
		return one(fg.lastIndexByte(args[0], args[1], fr.prefix+name))
	case "strings.Index":
		return one(StrIndexOf(args[0], args[1], IntLit(0)))
	case "strings.HasPrefix":
		return one(StrPrefixOf(args[1], args[0]))
	case "strings.HasSuffix":
		return one(StrSuffixOf(args[1], args[0]))
	case "strings.Join":
		// exact for a slice of syntactically known small length (the []string{a, b} idiom); otherwise an arbitrary string
		if n := SLen(args[0]); n.isSmallInt() && n.Int >= 0 && n.Int <= 4 {
			mn, ms, _ := fg.memVar(types.Typ[types.String])
			mem := fg.lookup(st, mn, ms)
			arr := Select(mem, SBase(args[0]))
			var parts []*Term
			for i := int64(0); i < n.Int; i++ {
				if i > 0 {
					parts = append(parts, args[1])
				}
				parts = append(parts, Select(arr, Add(SOff(args[0]), IntLit(i))))
			}
			if len(parts) == 0 {
				return one(StrLit(""))
			}
			if len(parts) == 1 {
				return one(parts[0])
			}
			return one(StrCat(parts...))
		}
		return one(fresh(SString))
	case "strings.Contains":
		return one(StrContains(args[0], args[1]))
	case "strings.TrimPrefix":
		return one(Ite(StrPrefixOf(args[1], args[0]), Substr(args[0], StrLen(args[1]), Sub(StrLen(args[0]), StrLen(args[1]))), args[0]))
	case "strings.TrimSuffix":
		return one(Ite(StrSuffixOf(args[1], args[0]), Substr(args[0], IntLit(0), Sub(StrLen(args[0]), StrLen(args[1]))), args[0]))
	case "slices.Contains":
		if sl, ok := c.Args[0].Type().Underlying().(*types.Slice); ok {
			return one(fg.sliceContains(args[0], sl.Elem(), args[1], st))
		}
		return one(fresh(SBool))
	case "strings.Compare":
		return one(Ite(Eq(args[0], args[1]), IntLit(0), Ite(StrLtT(args[0], args[1]), IntLit(-1), IntLit(1))))
	case "strings.Cut":
		s, sep := args[0], args[1]
		i := StrIndexOf(s, sep, IntLit(0))
		ic := fresh(SInt)
		fg.assume(Eq(ic, i))
		found := Ge(ic, IntLit(0))
		before := Ite(found, Substr(s, IntLit(0), ic), s)
		after := Ite(found, Substr(s, Add(ic, StrLen(sep)), Sub(StrLen(s), Add(ic, StrLen(sep)))), StrLit(""))
		return []*Term{before, after, found}, st, true
	case "(*strings.Builder).Grow", "(*strings.Builder).Len":
		if d.full == "(*strings.Builder).Len" {
			return one(StrLen(Select(fg.lookup(st, sbVar, sbSort), args[0])))
		}
		return nil, st, true
	case "(*strings.Builder).WriteString", "(*strings.Builder).WriteByte":
		h := fg.lookup(st, sbVar, sbSort)
		cur := Select(h, args[0])
		var add *Term
		if d.full == "(*strings.Builder).WriteByte" {
			add = StrFromCode(args[1])
		} else {
			add = args[1]
		}
		fg.set(st, sbVar, sbSort, Store(h, args[0], StrCat(cur, add)))
		if d.full == "(*strings.Builder).WriteByte" {
			return []*Term{nilIface}, st, true
		}
		return []*Term{StrLen(add), nilIface}, st, true
	case "(*strings.Builder).Reset":
		h := fg.lookup(st, sbVar, sbSort)
		fg.set(st, sbVar, sbSort, Store(h, args[0], StrLit("")))
		return nil, st, true
	case "(*strings.Builder).String":
		return one(Select(fg.lookup(st, sbVar, sbSort), args[0]))
	case "fmt.Errorf", "errors.New":
		e := fresh(SIface)
		fg.assume(And(Gt(ITag(e), IntLit(0)), Gt(IVal(e), IntLit(0)), Lt(IVal(e), IntLit(1000000))))
		return one(e)
	case "fmt.Sprintf", "fmt.Sprint":
		if d.full == "fmt.Sprintf" {
			if r := fg.sprintf(args[0], args[1], st); r != nil {
				return one(r)
			}
		}
		return one(fresh(SString))
	case "errors.Is":
		r := App("errIs", SBool, args[0], args[1])
		fg.assume(Implies(Eq(args[0], args[1]), r))
		fg.assume(Implies(And(Eq(args[0], nilIface), Neq(args[1], nilIface)), Not(r)))
		return one(r)
	case "errors.As":
		r := fresh(SBool)
		fg.assume(Implies(Eq(args[0], nilIface), Not(r)))
		return []*Term{r}, fg.havocAll(st), true
	case "errors.Join":
		return one(fresh(SIface))
	case "strconv.Itoa":
		r := App("str.from_int", SString, args[0])
		// str.from_int is "" for negatives; Go renders a minus sign
		return one(Ite(Ge(args[0], IntLit(0)), r, StrCat(StrLit("-"), App("str.from_int", SString, Neg(args[0])))))
	case "strconv.Atoi":
		v := fresh(SInt)
		fg.assumeValid(v, types.Typ[types.Int], True)
		e := fg.freshConst(fr.prefix+name+"_err", SIface)
		fg.assume(And(Ge(ITag(e), IntLit(0)), Implies(Eq(ITag(e), IntLit(0)), Eq(IVal(e), IntLit(0)))))
		// on error the value is 0 (or clamped; we leave it arbitrary); on success the value may be any int, negative included
		return []*Term{v, e}, st, true
	case "unicode.IsControl":
		r := args[0]
		return one(Or(And(Ge(r, IntLit(0)), Le(r, IntLit(0x1f))), And(Ge(r, IntLit(0x7f)), Le(r, IntLit(0x9f)))))
	case "(time.Time).After":
		return one(Gt(fg.timePoint(args[0]), fg.timePoint(args[1])))
	case "(time.Time).Before":
		return one(Lt(fg.timePoint(args[0]), fg.timePoint(args[1])))
	case "(time.Time).Equal":
		return one(Eq(fg.timePoint(args[0]), fg.timePoint(args[1])))
	case "(time.Time).IsZero":
		return one(Eq(fg.timePoint(args[0]), IntLit(0)))
	case "(time.Time).Add":
		r := fresh(args[0].Sort)
		fg.assume(Eq(fg.timePoint(r), Add(fg.timePoint(args[0]), args[1])))
		return one(r)
	case "(time.Time).Sub":
		return one(Sub(fg.timePoint(args[0]), fg.timePoint(args[1])))
	case "time.Now":
		r := fresh(fg.g.ti.sortOf(d.sig.Results().At(0).Type()))
		fg.assume(Gt(fg.timePoint(r), IntLit(0)))
		// the clock is monotone: a reading taken in a block dominated by an earlier reading is not before it
		if fr != nil && fr.curBlock != nil {
			for _, n := range fr.nows {
				if n.b == fr.curBlock || n.b.Dominates(fr.curBlock) {
					fg.assume(Ge(fg.timePoint(r), fg.timePoint(n.t)))
				}
			}
			fr.nows = append(fr.nows, nowRec{fr.curBlock, r})
		}
		return one(r)
	case "time.Since":
		return one(fresh(SInt))
	}
	return nil, st, false
}

// timePoint abstracts a time.Time struct value to a point on a total order (nanoseconds; zero time = 0).
func (fg *FnGen) timePoint(t *Term) *Term {
	fg.g.useTrusted("time.Time abstracted to a point on a total order (monotonic-clock and location details ignored)")
	return App("timePoint", SInt, t)
}

func (fg *FnGen) indexByte(s, c *Term, name string) *Term {
	r := Const(fg.freshName(name+"_idx"), SInt)
	cs := StrFromCode(c)
	// r = -1 and c not in s, or 0 <= r < len, s[r] = c, no c before r  (str.indexof gives exactly this)
	fg.assume(Eq(r, StrIndexOf(s, cs, IntLit(0))))
	fg.assume(And(Ge(r, IntLit(-1)), Lt(r, StrLen(s))))
	return r
}

func (fg *FnGen) lastIndexByte(s, c *Term, name string) *Term {
	r := Const(fg.freshName(name+"_lidx"), SInt)
	cs := StrFromCode(c)
	notIn := Not(StrContains(s, cs))
	after := Substr(s, Add(r, IntLit(1)), Sub(StrLen(s), Add(r, IntLit(1))))
	found := And(Ge(r, IntLit(0)), Lt(r, StrLen(s)), Eq(App("str.at", SString, s, r), cs), Not(StrContains(after, cs)))
	fg.assume(Or(And(Eq(r, IntLit(-1)), notIn), found))
	return r
}

// ---------------------------------------------------------------- monitors

func (fg *FnGen) monitorSend(fr *Frame, x *ssa.Send, st *State, reach *Term) *State {
	d := callDesc{short: "send", full: "send"}
	if u, ok := x.Chan.(*ssa.UnOp); ok {
		if fa, ok := u.X.(*ssa.FieldAddr); ok {
			if stt, _, ok := isStructPtr(fa.X.Type()); ok {
				d.short = "send:" + stt.Field(fa.Field).Name()
			}
		}
	}
	if p, ok := x.Chan.(*ssa.Parameter); ok {
		d.short = "send:" + p.Name()
	}
	d.full = d.short
	args, argTypes := []*Term{fg.val(fr, x.X)}, []types.Type{x.X.Type()}
	fg.monitorBefore(fr, d, args, argTypes, st, reach, x.Pos())
	d.sig = types.NewSignatureType(nil, nil, nil, nil, nil, false)
	return fg.monitorAfter(fr, d, args, nil, argTypes, st, reach)
}

// sprintf models fmt.Sprintf exactly for literal formats made of text, %s / %v on string operands and %d / %v on
// integer operands, when the variadic slice was built in this function (the operands are then syntactically known).
func (fg *FnGen) sprintf(format, argv *Term, st *State) *Term {
	if format.Kind != KStrLit {
		return nil
	}
	mem := fg.lookup(st, "Mem:Iface", ArraySort(SInt, ArraySort(SInt, SIface)))
	arr := Select(mem, SBase(argv))
	var parts []*Term
	f := format.Str
	argi := 0
	lit := ""
	strTag := int64(fg.g.ti.typeID(types.Typ[types.String]))
	for i := 0; i < len(f); i++ {
		if f[i] != '%' {
			lit += string(f[i])
			continue
		}
		if i+1 >= len(f) {
			return nil
		}
		i++
		if f[i] == '%' {
			lit += "%"
			continue
		}
		if f[i] != 's' && f[i] != 'v' && f[i] != 'd' {
			return nil
		}
		el := Select(arr, Add(SOff(argv), IntLit(int64(argi))))
		argi++
		if el.Kind != KApp || el.Op != "mk-iface" || !el.Args[0].isSmallInt() {
			return nil
		}
		v := el.Args[1]
		if v.Kind != KApp || !strings.HasPrefix(v.Op, "boxid_") {
			return nil
		}
		operand := v.Args[0]
		if lit != "" {
			parts = append(parts, StrLit(lit))
			lit = ""
		}
		switch {
		case operand.Sort == SString && el.Args[0].Int == strTag && f[i] != 'd':
			parts = append(parts, operand)
		case operand.Sort == SString && f[i] != 'd':
			// named string types print the same way
			parts = append(parts, operand)
		case operand.Sort == SInt && f[i] != 's':
			parts = append(parts, Ite(Ge(operand, IntLit(0)), App("str.from_int", SString, operand), StrCat(StrLit("-"), App("str.from_int", SString, Neg(operand)))))
		default:
			return nil
		}
	}
	if lit != "" {
		parts = append(parts, StrLit(lit))
	}
	if !(SLen(argv).isSmallInt() && SLen(argv).Int == int64(argi)) {
		return nil
	}
	fg.g.useTrusted("built-in contract: fmt.Sprintf with a literal format of text and %s/%v/%d on string/int operands is concatenation")
	return StrCat(parts...)
}
