package main

import (
	"fmt"
	"go/types"
	"strings"
)

// ---------------------------------------------------------------- Go types -> SMT sorts

type TypeInfo struct {
	structNames map[*types.Struct]string
	nameOwner   map[string]*types.Struct
	typeIDs     map[string]int
	typeByID    map[int]types.Type
}

func newTypeInfo() *TypeInfo {
	return &TypeInfo{structNames: map[*types.Struct]string{}, typeIDs: map[string]int{}, typeByID: map[int]types.Type{}}
}

func shortTypeName(t types.Type) string {
	s := types.TypeString(t, func(p *types.Package) string { return p.Name() })
	s = strings.NewReplacer(" ", "", "*", "P", "[", "_", "]", "_", "{", "_", "}", "_", ",", "_", "(", "_", ")", "_", "/", "_", ";", "_", "\"", "").Replace(s)
	if len(s) > 60 {
		s = s[:60]
	}
	return s
}

// structName gives a canonical name for a struct type (shared by all named types with this underlying struct):
// the named type whose declaration encloses the struct's first field.
func (ti *TypeInfo) structName(named types.Type, st *types.Struct) string {
	if n, ok := ti.structNames[st]; ok {
		return n
	}
	n := ""
	if named != nil {
		named = types.Unalias(named) // type ReadUserTupleFilter = ReadFilter names the same struct
	}
	if nt, ok := named.(*types.Named); ok {
		n = nt.Obj().Name()
		if nt.Obj().Pkg() != nil {
			n = nt.Obj().Pkg().Name() + "." + n
		}
		if nt.TypeArgs().Len() > 0 {
			n = shortTypeName(nt)
		} else if st.NumFields() > 0 && st.Field(0).Pkg() != nil {
			f := st.Field(0)
			bestPos := int64(-1)
			for _, name := range f.Pkg().Scope().Names() {
				tn, ok := f.Pkg().Scope().Lookup(name).(*types.TypeName)
				if !ok || tn.IsAlias() {
					continue
				}
				if ns, ok := tn.Type().Underlying().(*types.Struct); ok && ns == st && tn.Pos() < f.Pos() && int64(tn.Pos()) > bestPos {
					bestPos = int64(tn.Pos())
					n = f.Pkg().Name() + "." + tn.Name()
				}
			}
		}
	} else {
		n = fmt.Sprintf("anon%d_%s", len(ti.structNames), shortTypeName(st))
	}
	// package names are not unique (sync vs internal/sync): disambiguate on collision
	if ti.nameOwner == nil {
		ti.nameOwner = map[string]*types.Struct{}
	}
	for k := 2; ; k++ {
		if owner, taken := ti.nameOwner[n]; !taken || owner == st {
			break
		}
		n = fmt.Sprintf("%s~%d", strings.TrimRight(strings.Split(n, "~")[0], "~"), k)
	}
	ti.nameOwner[n] = st
	ti.structNames[st] = n
	return n
}

func (ti *TypeInfo) typeID(t types.Type) int {
	k := types.TypeString(t, nil)
	if id, ok := ti.typeIDs[k]; ok {
		return id
	}
	id := len(ti.typeIDs) + 1
	ti.typeIDs[k] = id
	ti.typeByID[id] = t
	return id
}

func isStructPtr(t types.Type) (*types.Struct, types.Type, bool) {
	if p, ok := t.Underlying().(*types.Pointer); ok {
		if st, ok := p.Elem().Underlying().(*types.Struct); ok {
			return st, p.Elem(), true
		}
	}
	return nil, nil, false
}

func isByteSlice(t types.Type) bool {
	if s, ok := t.Underlying().(*types.Slice); ok {
		if b, ok := s.Elem().Underlying().(*types.Basic); ok {
			return b.Kind() == types.Uint8
		}
	}
	return false
}

func (ti *TypeInfo) sortOf(t types.Type) string {
	switch u := t.Underlying().(type) {
	case *types.Basic:
		switch {
		case u.Info()&types.IsBoolean != 0:
			return SBool
		case u.Info()&types.IsString != 0:
			return SString
		case u.Info()&types.IsInteger != 0:
			return SInt
		case u.Info()&types.IsFloat != 0:
			return "Float"
		case u.Info()&types.IsComplex != 0:
			return "Complex"
		case u.Kind() == types.UnsafePointer:
			return SInt
		case u.Kind() == types.UntypedNil:
			return SInt
		}
		return "U"
	case *types.Pointer, *types.Map, *types.Chan, *types.Signature:
		return SInt
	case *types.Slice:
		return SSlice
	case *types.Interface:
		return SIface
	case *types.Struct:
		return ti.structSort(t, u)
	case *types.Array:
		if b, ok := u.Elem().Underlying().(*types.Basic); ok && b.Kind() == types.Uint8 {
			return SString // fixed-size byte arrays are strings of that length
		}
		return ArraySort(SInt, ti.sortOf(u.Elem()))
	case *types.Tuple:
		return "Tuple"
	}
	return "U"
}

func (ti *TypeInfo) structSort(named types.Type, st *types.Struct) string {
	name := "S_" + ti.structName(named, st)
	if _, ok := globalDatatypes[name]; ok {
		return name
	}
	dt := &Datatype{Name: name, Ctor: "mk-" + name}
	// register early to stop recursion (Go forbids recursive by-value structs anyway)
	globalDatatypes[name] = dt
	for i := 0; i < st.NumFields(); i++ {
		f := st.Field(i)
		dt.Fields = append(dt.Fields, fmt.Sprintf("%s.%s", name, f.Name()))
		dt.Sorts = append(dt.Sorts, ti.sortOf(f.Type()))
	}
	delete(globalDatatypes, name)
	RegisterDatatype(dt)
	return name
}

func (ti *TypeInfo) zeroOf(t types.Type) *Term {
	s := ti.sortOf(t)
	switch s {
	case SBool:
		return False
	case SInt:
		return IntLit(0)
	case SString:
		return StrLit("")
	case SSlice:
		return nilSlice
	case SIface:
		return nilIface
	}
	if st, ok := t.Underlying().(*types.Struct); ok {
		var args []*Term
		for i := 0; i < st.NumFields(); i++ {
			args = append(args, ti.zeroOf(st.Field(i).Type()))
		}
		return Ctor("mk-"+s, s, args...)
	}
	return Const("zero_"+sanitize(s), s)
}

var (
	nilSlice = Ctor("mk-slice", SSlice, IntLit(0), IntLit(0), IntLit(0), IntLit(0))
	nilIface = Ctor("mk-iface", SIface, IntLit(0), IntLit(0))
)

func SBase(s *Term) *Term { return Sel("sbase", SInt, 0, s) }
func SOff(s *Term) *Term  { return Sel("soff", SInt, 1, s) }
func SLen(s *Term) *Term  { return Sel("slen", SInt, 2, s) }
func SCap(s *Term) *Term  { return Sel("scap", SInt, 3, s) }
func MkSlice(b, o, l, c *Term) *Term {
	return Ctor("mk-slice", SSlice, b, o, l, c)
}
func ITag(s *Term) *Term { return Sel("itag", SInt, 0, s) }
func IVal(s *Term) *Term { return Sel("ival", SInt, 1, s) }
func MkIface(tag, v *Term) *Term {
	return Ctor("mk-iface", SIface, tag, v)
}

// intRange returns (lo, hi, ok) bounds as decimal strings for integer basic kinds.
func intRange(t types.Type) (string, string, bool) {
	b, ok := t.Underlying().(*types.Basic)
	if !ok || b.Info()&types.IsInteger == 0 {
		return "", "", false
	}
	switch b.Kind() {
	case types.Int, types.Int64:
		return "-9223372036854775808", "9223372036854775807", true
	case types.Int32:
		return "-2147483648", "2147483647", true
	case types.Int16:
		return "-32768", "32767", true
	case types.Int8:
		return "-128", "127", true
	case types.Uint, types.Uint64, types.Uintptr:
		return "0", "18446744073709551615", true
	case types.Uint32:
		return "0", "4294967295", true
	case types.Uint16:
		return "0", "65535", true
	case types.Uint8:
		return "0", "255", true
	}
	return "", "", false
}
