package main

// SMT term library with light local simplification.

import (
	"fmt"
	"sort"
	"strconv"
	"strings"
)

// Sorts are plain strings in SMT-LIB syntax.
const (
	SBool   = "Bool"
	SInt    = "Int"
	SString = "String"
	SSlice  = "Slice" // datatype (mk-slice sbase soff slen scap)
	SIface  = "Iface" // datatype (mk-iface itag ival)
	SReal   = "Real"
)

func ArraySort(k, v string) string { return "(Array " + k + " " + v + ")" }

type Term struct {
	Op   string // operator / constant name / literal text
	Args []*Term
	Sort string
	Kind int
	Str  string  // for string literals: raw bytes
	Int  int64   // for small int literals
	Q    []*Term // bound vars for quantifiers
	Pat  [][]*Term
	key  string
}

const (
	KApp = iota
	KConst
	KIntLit
	KBoolLit
	KStrLit
	KQuant
	KBound
)

func (t *Term) Key() string {
	if t.key != "" {
		return t.key
	}
	var sb strings.Builder
	switch t.Kind {
	case KConst, KBound:
		sb.WriteString(t.Op)
	case KIntLit:
		sb.WriteString(t.Op)
	case KBoolLit:
		sb.WriteString(t.Op)
	case KStrLit:
		sb.WriteString(strconv.Quote(t.Str))
	case KQuant:
		sb.WriteString("(" + t.Op + " (")
		for _, q := range t.Q {
			sb.WriteString(q.Op + ":" + q.Sort + " ")
		}
		sb.WriteString(") " + t.Args[0].Key() + ")")
	default:
		sb.WriteString("(" + t.Op)
		for _, a := range t.Args {
			sb.WriteByte(' ')
			sb.WriteString(a.Key())
		}
		sb.WriteByte(')')
	}
	t.key = sb.String()
	return t.key
}

func same(a, b *Term) bool { return a == b || a.Key() == b.Key() }

var (
	True  = &Term{Op: "true", Sort: SBool, Kind: KBoolLit}
	False = &Term{Op: "false", Sort: SBool, Kind: KBoolLit}
)

func Const(name, sort string) *Term { return &Term{Op: name, Sort: sort, Kind: KConst} }
func Bound(name, sort string) *Term { return &Term{Op: name, Sort: sort, Kind: KBound} }

func IntLit(v int64) *Term {
	return &Term{Op: strconv.FormatInt(v, 10), Sort: SInt, Kind: KIntLit, Int: v}
}
func BigIntLit(s string) *Term {
	if v, err := strconv.ParseInt(s, 10, 64); err == nil {
		return IntLit(v)
	}
	// beyond int64 (uint64 constants): keep text, mark as literal with Int=0 and special flag
	return &Term{Op: s, Sort: SInt, Kind: KIntLit, Int: 0, Str: "big"}
}
func (t *Term) isSmallInt() bool { return t.Kind == KIntLit && t.Str != "big" }

func BoolLit(b bool) *Term {
	if b {
		return True
	}
	return False
}
func StrLit(s string) *Term { return &Term{Op: "strlit", Sort: SString, Kind: KStrLit, Str: s} }

func App(op, sort string, args ...*Term) *Term {
	return &Term{Op: op, Sort: sort, Args: args, Kind: KApp}
}

func Not(a *Term) *Term {
	if a == True {
		return False
	}
	if a == False {
		return True
	}
	if a.Kind == KApp && a.Op == "not" {
		return a.Args[0]
	}
	return App("not", SBool, a)
}

func And(xs ...*Term) *Term {
	var out []*Term
	seen := map[string]bool{}
	for _, x := range xs {
		if x == nil || x == True {
			continue
		}
		if x == False {
			return False
		}
		if x.Kind == KApp && x.Op == "and" {
			for _, y := range x.Args {
				if !seen[y.Key()] {
					seen[y.Key()] = true
					out = append(out, y)
				}
			}
			continue
		}
		if !seen[x.Key()] {
			seen[x.Key()] = true
			out = append(out, x)
		}
	}
	if len(out) == 0 {
		return True
	}
	if len(out) == 1 {
		return out[0]
	}
	return App("and", SBool, out...)
}

func Or(xs ...*Term) *Term {
	var out []*Term
	seen := map[string]bool{}
	for _, x := range xs {
		if x == nil || x == False {
			continue
		}
		if x == True {
			return True
		}
		if x.Kind == KApp && x.Op == "or" {
			for _, y := range x.Args {
				if !seen[y.Key()] {
					seen[y.Key()] = true
					out = append(out, y)
				}
			}
			continue
		}
		if !seen[x.Key()] {
			seen[x.Key()] = true
			out = append(out, x)
		}
	}
	if len(out) == 0 {
		return False
	}
	if len(out) == 1 {
		return out[0]
	}
	return App("or", SBool, out...)
}

func Implies(a, b *Term) *Term {
	if a == True {
		return b
	}
	if a == False || b == True {
		return True
	}
	if b == False {
		return Not(a)
	}
	if same(a, b) {
		return True
	}
	if a.Kind == KApp && a.Op == "and" {
		for _, x := range a.Args {
			if same(x, b) {
				return True
			}
		}
	}
	return App("=>", SBool, a, b)
}

func Iff(a, b *Term) *Term { return Eq(a, b) }

func Ite(c, a, b *Term) *Term {
	if c == True {
		return a
	}
	if c == False {
		return b
	}
	if same(a, b) {
		return a
	}
	if a.Sort == SBool {
		if a == True && b == False {
			return c
		}
		if a == False && b == True {
			return Not(c)
		}
	}
	return App("ite", a.Sort, c, a, b)
}

func Eq(a, b *Term) *Term {
	if a.Sort != b.Sort {
		panic(fmt.Sprintf("Eq sort mismatch: %s:%s vs %s:%s", a.Key(), a.Sort, b.Key(), b.Sort))
	}
	if same(a, b) {
		return True
	}
	if a.isSmallInt() && b.isSmallInt() {
		return BoolLit(a.Int == b.Int)
	}
	if a.Kind == KStrLit && b.Kind == KStrLit {
		return BoolLit(a.Str == b.Str)
	}
	if a.Kind == KBoolLit && b.Kind == KBoolLit {
		return BoolLit(a == b)
	}
	if a.Sort == SBool {
		if a == True {
			return b
		}
		if b == True {
			return a
		}
		if a == False {
			return Not(b)
		}
		if b == False {
			return Not(a)
		}
	}
	// constructor equality
	if a.Kind == KApp && b.Kind == KApp && isCtor(a.Op) && a.Op == b.Op && len(a.Args) == len(b.Args) {
		var cs []*Term
		for i := range a.Args {
			cs = append(cs, Eq(a.Args[i], b.Args[i]))
		}
		return And(cs...)
	}
	return App("=", SBool, a, b)
}

func Neq(a, b *Term) *Term { return Not(Eq(a, b)) }

func isCtor(op string) bool { return strings.HasPrefix(op, "mk-") }

func Add(a, b *Term) *Term {
	if a.isSmallInt() && b.isSmallInt() {
		r := a.Int + b.Int
		if (r > a.Int) == (b.Int > 0) {
			return IntLit(r)
		}
	}
	if a.isSmallInt() && a.Int == 0 {
		return b
	}
	if b.isSmallInt() && b.Int == 0 {
		return a
	}
	// (x + c1) + c2
	if b.isSmallInt() && a.Kind == KApp && a.Op == "+" && len(a.Args) == 2 && a.Args[1].isSmallInt() {
		return Add(a.Args[0], Add(a.Args[1], b))
	}
	return App("+", SInt, a, b)
}
func Sub(a, b *Term) *Term {
	if a.isSmallInt() && b.isSmallInt() {
		r := a.Int - b.Int
		if (r < a.Int) == (b.Int > 0) {
			return IntLit(r)
		}
	}
	if b.isSmallInt() && b.Int == 0 {
		return a
	}
	if same(a, b) {
		return IntLit(0)
	}
	if b.isSmallInt() {
		return Add(a, IntLit(-b.Int))
	}
	return App("-", SInt, a, b)
}
func Mul(a, b *Term) *Term {
	if a.isSmallInt() && b.isSmallInt() {
		if a.Int == 0 || b.Int == 0 {
			return IntLit(0)
		}
		r := a.Int * b.Int
		if r/b.Int == a.Int {
			return IntLit(r)
		}
	}
	return App("*", SInt, a, b)
}
func Neg(a *Term) *Term {
	if a.isSmallInt() {
		return IntLit(-a.Int)
	}
	return App("-", SInt, a)
}
func cmp(op string, a, b *Term) *Term {
	if a.isSmallInt() && b.isSmallInt() {
		switch op {
		case "<":
			return BoolLit(a.Int < b.Int)
		case "<=":
			return BoolLit(a.Int <= b.Int)
		case ">":
			return BoolLit(a.Int > b.Int)
		case ">=":
			return BoolLit(a.Int >= b.Int)
		}
	}
	if same(a, b) {
		return BoolLit(op == "<=" || op == ">=")
	}
	return App(op, SBool, a, b)
}
func Lt(a, b *Term) *Term { return cmp("<", a, b) }
func Le(a, b *Term) *Term { return cmp("<=", a, b) }
func Gt(a, b *Term) *Term { return cmp(">", a, b) }
func Ge(a, b *Term) *Term { return cmp(">=", a, b) }

// Strings
func StrLen(s *Term) *Term {
	if s.Kind == KStrLit {
		return IntLit(int64(len(s.Str)))
	}
	if s.Kind == KApp && s.Op == "str.++" {
		r := IntLit(0)
		var rest []*Term
		for _, a := range s.Args {
			if a.Kind == KStrLit {
				r = Add(r, IntLit(int64(len(a.Str))))
			} else {
				rest = append(rest, App("str.len", SInt, a))
			}
		}
		out := r
		for i := len(rest) - 1; i >= 0; i-- {
			if out.isSmallInt() && out.Int == 0 {
				out = rest[i]
			} else {
				out = App("+", SInt, rest[i], out)
			}
		}
		return out
	}
	return App("str.len", SInt, s)
}
func StrCat(xs ...*Term) *Term {
	var out []*Term
	for _, x := range xs {
		if x.Kind == KApp && x.Op == "str.++" {
			for _, y := range x.Args {
				out = appendStr(out, y)
			}
		} else {
			out = appendStr(out, x)
		}
	}
	if len(out) == 0 {
		return StrLit("")
	}
	if len(out) == 1 {
		return out[0]
	}
	return App("str.++", SString, out...)
}
func appendStr(out []*Term, y *Term) []*Term {
	if y.Kind == KStrLit && y.Str == "" {
		return out
	}
	if y.Kind == KStrLit && len(out) > 0 && out[len(out)-1].Kind == KStrLit {
		out[len(out)-1] = StrLit(out[len(out)-1].Str + y.Str)
		return out
	}
	return append(out, y)
}
func Substr(s, off, n *Term) *Term {
	if s.Kind == KStrLit && off.isSmallInt() && n.isSmallInt() {
		o, l := off.Int, n.Int
		if o < 0 || o >= int64(len(s.Str)) || l <= 0 {
			return StrLit("")
		}
		e := o + l
		if e > int64(len(s.Str)) {
			e = int64(len(s.Str))
		}
		return StrLit(s.Str[o:e])
	}
	if off.isSmallInt() && off.Int == 0 && n.Kind == KApp && n.Op == "str.len" && same(n.Args[0], s) {
		return s
	}
	// prefix of a concatenation whose length is the sum of the lengths of the first parts
	if off.isSmallInt() && off.Int == 0 && s.Kind == KApp && s.Op == "str.++" {
		acc := IntLit(0)
		for m, part := range s.Args {
			acc = Add(acc, StrLen(part))
			if same(acc, n) {
				return StrCat(s.Args[:m+1]...)
			}
		}
	}
	return App("str.substr", SString, s, off, n)
}

// StrCode returns the code of the char at i (or -1 if out of range).
func StrCode(s, i *Term) *Term {
	if s.Kind == KStrLit && i.isSmallInt() {
		if i.Int >= 0 && i.Int < int64(len(s.Str)) {
			return IntLit(int64(s.Str[i.Int]))
		}
		return IntLit(-1)
	}
	return App("str.to_code", SInt, App("str.at", SString, s, i))
}
func StrFromCode(c *Term) *Term {
	if c.isSmallInt() && c.Int >= 0 && c.Int < 256 {
		return StrLit(string([]byte{byte(c.Int)}))
	}
	return App("str.from_code", SString, c)
}
func StrContains(s, sub *Term) *Term      { return App("str.contains", SBool, s, sub) }
func StrPrefixOf(pre, s *Term) *Term      { return App("str.prefixof", SBool, pre, s) }
func StrSuffixOf(suf, s *Term) *Term      { return App("str.suffixof", SBool, suf, s) }
func StrIndexOf(s, sub, from *Term) *Term { return App("str.indexof", SInt, s, sub, from) }
func StrLtT(a, b *Term) *Term             { return App("str.<", SBool, a, b) }
func StrLeT(a, b *Term) *Term             { return App("str.<=", SBool, a, b) }

// Arrays
func Select(a, i *Term) *Term {
	vs := elemSort(a.Sort)
	for a.Kind == KApp && a.Op == "store" {
		j := a.Args[1]
		if same(i, j) {
			return a.Args[2]
		}
		if i.isSmallInt() && j.isSmallInt() && i.Int != j.Int {
			a = a.Args[0]
			continue
		}
		if refsDistinct(i, j) {
			a = a.Args[0]
			continue
		}
		break
	}
	return App("select", vs, a, i)
}
func Store(a, i, v *Term) *Term {
	if a.Kind == KApp && a.Op == "store" && same(a.Args[1], i) {
		a = a.Args[0]
	}
	return App("store", a.Sort, a, i, v)
}

// elemSort parses "(Array K V)" and returns V.
func elemSort(s string) string {
	_, v := splitArraySort(s)
	return v
}
func splitArraySort(s string) (string, string) {
	if !strings.HasPrefix(s, "(Array ") {
		panic("not an array sort: " + s)
	}
	body := s[len("(Array ") : len(s)-1]
	// first sort token
	depth := 0
	for i := 0; i < len(body); i++ {
		switch body[i] {
		case '(':
			depth++
		case ')':
			depth--
		case ' ':
			if depth == 0 {
				return body[:i], body[i+1:]
			}
		}
	}
	panic("bad array sort: " + s)
}

// Datatypes: constructor "mk-X", selectors by name.
func Ctor(name, sort string, args ...*Term) *Term { return App(name, sort, args...) }
func Sel(field, sort string, idx int, t *Term) *Term {
	if t.Kind == KApp && isCtor(t.Op) && idx < len(t.Args) {
		return t.Args[idx]
	}
	if t.Kind == KApp && t.Op == "ite" {
		// push selector into ite of constructors
		a, b := t.Args[1], t.Args[2]
		if (a.Kind == KApp && isCtor(a.Op)) || (b.Kind == KApp && isCtor(b.Op)) {
			return Ite(t.Args[0], Sel(field, sort, idx, a), Sel(field, sort, idx, b))
		}
	}
	return App(field, sort, t)
}

func Forall(vars []*Term, body *Term) *Term {
	if body == True || len(vars) == 0 {
		return body
	}
	return &Term{Op: "forall", Kind: KQuant, Q: vars, Args: []*Term{body}, Sort: SBool}
}
func Exists(vars []*Term, body *Term) *Term {
	if body == False || len(vars) == 0 {
		return body
	}
	return &Term{Op: "exists", Kind: KQuant, Q: vars, Args: []*Term{body}, Sort: SBool}
}

// ---------------------------------------------------------------- substitution

func Subst(t *Term, m map[string]*Term) *Term {
	if len(m) == 0 {
		return t
	}
	cache := map[*Term]*Term{}
	return subst(t, m, cache)
}
func subst(t *Term, m map[string]*Term, cache map[*Term]*Term) *Term {
	if r, ok := cache[t]; ok {
		return r
	}
	var r *Term
	switch t.Kind {
	case KConst, KBound:
		if v, ok := m[t.Op]; ok {
			r = v
		} else {
			r = t
		}
	case KIntLit, KBoolLit, KStrLit:
		r = t
	case KQuant:
		// assume no capture (bound names are unique)
		b := subst(t.Args[0], m, cache)
		if b == t.Args[0] {
			r = t
		} else {
			r = &Term{Op: t.Op, Kind: KQuant, Q: t.Q, Args: []*Term{b}, Sort: SBool}
		}
	default:
		changed := false
		args := make([]*Term, len(t.Args))
		for i, a := range t.Args {
			args[i] = subst(a, m, cache)
			if args[i] != a {
				changed = true
			}
		}
		if !changed {
			r = t
		} else {
			r = rebuild(t, args)
		}
	}
	cache[t] = r
	return r
}

// rebuild re-applies smart constructors after substitution.
func rebuild(t *Term, args []*Term) *Term {
	switch t.Op {
	case "and":
		return And(args...)
	case "or":
		return Or(args...)
	case "not":
		return Not(args[0])
	case "=>":
		return Implies(args[0], args[1])
	case "ite":
		return Ite(args[0], args[1], args[2])
	case "=":
		return Eq(args[0], args[1])
	case "+":
		if len(args) == 2 {
			return Add(args[0], args[1])
		}
	case "-":
		if len(args) == 2 {
			return Sub(args[0], args[1])
		}
	case "<", "<=", ">", ">=":
		return cmp(t.Op, args[0], args[1])
	case "str.len":
		return StrLen(args[0])
	case "str.++":
		return StrCat(args...)
	case "str.substr":
		return Substr(args[0], args[1], args[2])
	case "select":
		return Select(args[0], args[1])
	case "store":
		return Store(args[0], args[1], args[2])
	}
	if t.Kind == KApp && len(args) == 1 && !isCtor(t.Op) && args[0].Kind == KApp && isCtor(args[0].Op) {
		// selector over constructor: need index; look up in datatype registry
		if idx, ok := selectorIndex[t.Op]; ok {
			return Sel(t.Op, t.Sort, idx, args[0])
		}
	}
	return &Term{Op: t.Op, Args: args, Sort: t.Sort, Kind: t.Kind}
}

var selectorIndex = map[string]int{"sbase": 0, "soff": 1, "slen": 2, "scap": 3, "itag": 0, "ival": 1}

// ---------------------------------------------------------------- printing

type Datatype struct {
	Name   string
	Ctor   string
	Fields []string // selector names
	Sorts  []string
}

type Printer struct {
	consts  map[string]string // name -> sort
	funs    map[string]string // name -> signature "(A B) R"
	dts     map[string]*Datatype
	usorts  map[string]bool
	order   []string
	dtOrder []string
}

func NewPrinter() *Printer {
	return &Printer{consts: map[string]string{}, funs: map[string]string{}, dts: map[string]*Datatype{}, usorts: map[string]bool{}}
}

var builtinOps = map[string]bool{
	"and": true, "or": true, "not": true, "=>": true, "ite": true, "=": true, "distinct": true,
	"+": true, "-": true, "*": true, "div": true, "mod": true, "abs": true,
	"<": true, "<=": true, ">": true, ">=": true,
	"str.len": true, "str.++": true, "str.substr": true, "str.at": true, "str.to_code": true, "str.from_code": true,
	"str.contains": true, "str.prefixof": true, "str.suffixof": true, "str.indexof": true, "str.<": true, "str.<=": true,
	"str.replace": true, "str.from_int": true, "str.to_int": true,
	"select": true, "store": true, "as-const": true,
}

var globalDatatypes = map[string]*Datatype{
	SSlice: {Name: SSlice, Ctor: "mk-slice", Fields: []string{"sbase", "soff", "slen", "scap"}, Sorts: []string{SInt, SInt, SInt, SInt}},
	SIface: {Name: SIface, Ctor: "mk-iface", Fields: []string{"itag", "ival"}, Sorts: []string{SInt, SInt}},
}
var ctorToDT = map[string]*Datatype{"mk-slice": globalDatatypes[SSlice], "mk-iface": globalDatatypes[SIface]}
var selToDT = map[string]*Datatype{}

func init() {
	for _, dt := range globalDatatypes {
		for _, f := range dt.Fields {
			selToDT[f] = dt
		}
	}
}

func RegisterDatatype(dt *Datatype) {
	if _, ok := globalDatatypes[dt.Name]; ok {
		return
	}
	globalDatatypes[dt.Name] = dt
	ctorToDT[dt.Ctor] = dt
	for i, f := range dt.Fields {
		selToDT[f] = dt
		selectorIndex[f] = i
	}
}

func (p *Printer) noteSort(s string) {
	if s == SBool || s == SInt || s == SString || s == SReal || s == "" {
		return
	}
	if strings.HasPrefix(s, "(Array ") {
		k, v := splitArraySort(s)
		p.noteSort(k)
		p.noteSort(v)
		return
	}
	if dt, ok := globalDatatypes[s]; ok {
		if _, seen := p.dts[s]; !seen {
			p.dts[s] = dt
			for _, fs := range dt.Sorts {
				p.noteSort(fs)
			}
			p.dtOrder = append(p.dtOrder, s)
		}
		return
	}
	p.usorts[s] = true
}

func (p *Printer) collect(t *Term, seen map[*Term]bool) {
	if seen[t] {
		return
	}
	seen[t] = true
	p.noteSort(t.Sort)
	switch t.Kind {
	case KConst:
		if _, ok := p.consts[t.Op]; !ok {
			p.consts[t.Op] = t.Sort
			p.order = append(p.order, t.Op)
		} else if p.consts[t.Op] != t.Sort {
			panic("const " + t.Op + " declared with two sorts: " + p.consts[t.Op] + " / " + t.Sort)
		}
	case KQuant:
		for _, q := range t.Q {
			p.noteSort(q.Sort)
		}
		p.collect(t.Args[0], seen)
	case KApp:
		for _, a := range t.Args {
			p.collect(a, seen)
		}
		if !builtinOps[t.Op] && ctorToDT[t.Op] == nil && selToDT[t.Op] == nil {
			sig := "("
			for i, a := range t.Args {
				if i > 0 {
					sig += " "
				}
				sig += a.Sort
			}
			sig += ") " + t.Sort
			if old, ok := p.funs[t.Op]; ok && old != sig {
				panic("function " + t.Op + " used with two signatures: " + old + " / " + sig)
			}
			if _, ok := p.funs[t.Op]; !ok {
				p.funs[t.Op] = sig
			}
		}
	}
}

func smtString(s string) string {
	var sb strings.Builder
	sb.WriteByte('"')
	for i := 0; i < len(s); i++ {
		c := s[i]
		switch {
		case c == '"':
			sb.WriteString(`""`)
		case c == '\\':
			sb.WriteString(`\u{5c}`)
		case c >= 0x20 && c < 0x7f:
			sb.WriteByte(c)
		default:
			fmt.Fprintf(&sb, `\u{%x}`, c)
		}
	}
	sb.WriteByte('"')
	return sb.String()
}

func quoteSym(s string) string {
	for i := 0; i < len(s); i++ {
		c := s[i]
		if !(c >= 'a' && c <= 'z' || c >= 'A' && c <= 'Z' || c >= '0' && c <= '9' || strings.IndexByte("_.$!-<>=+*/%?~&^@", c) >= 0) {
			return "|" + s + "|"
		}
	}
	return s
}

func (t *Term) String() string {
	var sb strings.Builder
	writeTerm(&sb, t)
	return sb.String()
}

func writeTerm(sb *strings.Builder, t *Term) {
	switch t.Kind {
	case KConst, KBound:
		sb.WriteString(quoteSym(t.Op))
	case KIntLit:
		if strings.HasPrefix(t.Op, "-") {
			sb.WriteString("(- " + t.Op[1:] + ")")
		} else {
			sb.WriteString(t.Op)
		}
	case KBoolLit:
		sb.WriteString(t.Op)
	case KStrLit:
		sb.WriteString(smtString(t.Str))
	case KQuant:
		sb.WriteString("(" + t.Op + " (")
		for _, q := range t.Q {
			sb.WriteString("(" + quoteSym(q.Op) + " " + q.Sort + ")")
		}
		sb.WriteString(") ")
		if len(t.Pat) > 0 {
			sb.WriteString("(! ")
		}
		writeTerm(sb, t.Args[0])
		if len(t.Pat) > 0 {
			for _, p := range t.Pat {
				sb.WriteString(" :pattern (")
				for i, x := range p {
					if i > 0 {
						sb.WriteByte(' ')
					}
					writeTerm(sb, x)
				}
				sb.WriteString(")")
			}
			sb.WriteString(")")
		}
		sb.WriteString(")")
	default:
		if len(t.Args) == 0 {
			sb.WriteString(quoteSym(t.Op))
			return
		}
		if t.Op == "as-const" {
			sb.WriteString("((as const " + t.Sort + ") ")
			writeTerm(sb, t.Args[0])
			sb.WriteByte(')')
			return
		}
		sb.WriteString("(" + quoteSym(t.Op))
		for _, a := range t.Args {
			sb.WriteByte(' ')
			writeTerm(sb, a)
		}
		sb.WriteByte(')')
	}
}

// Script renders a full SMT-LIB script asserting all of asserts; the query is sat-checking.
func Script(asserts []*Term, getValues []*Term, extraDecls []string, defs []string) string {
	p := NewPrinter()
	seen := map[*Term]bool{}
	for _, a := range asserts {
		p.collect(a, seen)
	}
	for _, g := range getValues {
		p.collect(g, seen)
	}
	var sb strings.Builder
	sb.WriteString("(set-option :produce-models true)\n(set-logic ALL)\n")
	var us []string
	for s := range p.usorts {
		us = append(us, s)
	}
	sort.Strings(us)
	for _, s := range us {
		sb.WriteString("(declare-sort " + quoteSym(s) + " 0)\n")
	}
	// datatypes: dtOrder is leaf-first (a datatype is appended after the sorts of its fields)
	for i := 0; i < len(p.dtOrder); i++ {
		dt := p.dts[p.dtOrder[i]]
		sb.WriteString("(declare-datatypes ((" + quoteSym(dt.Name) + " 0)) (((" + quoteSym(dt.Ctor))
		for j, f := range dt.Fields {
			sb.WriteString(" (" + quoteSym(f) + " " + dt.Sorts[j] + ")")
		}
		sb.WriteString("))))\n")
	}
	for _, d := range extraDecls {
		sb.WriteString(d + "\n")
	}
	for _, name := range p.order {
		sb.WriteString("(declare-const " + quoteSym(name) + " " + p.consts[name] + ")\n")
	}
	var fs []string
	for f := range p.funs {
		fs = append(fs, f)
	}
	sort.Strings(fs)
	predeclared := map[string]bool{}
	for _, d := range defs {
		// "(define-fun name ..." or "(define-fun-rec name"
		parts := strings.Fields(d)
		if len(parts) > 1 {
			predeclared[strings.Trim(parts[1], "|")] = true
		}
	}
	for _, f := range fs {
		if predeclared[f] {
			continue
		}
		sb.WriteString("(declare-fun " + quoteSym(f) + " " + p.funs[f] + ")\n")
	}
	for _, d := range defs {
		sb.WriteString(d + "\n")
	}
	for _, a := range asserts {
		sb.WriteString("(assert ")
		writeTerm(&sb, a)
		sb.WriteString(")\n")
	}
	sb.WriteString("(check-sat)\n")
	if len(getValues) > 0 {
		sb.WriteString("(get-value (")
		for i, g := range getValues {
			if i > 0 {
				sb.WriteByte(' ')
			}
			writeTerm(&sb, g)
		}
		sb.WriteString("))\n")
	}
	return sb.String()
}
