package main

import "golang.org/x/tools/go/ssa"

// nonEscaping: a pointer created by this allocation is never handed to a callee, stored as a value, captured or sent:
// it is only dereferenced, compared, merged and returned. No call made by the function can reach the object, so its
// fields survive calls with unknown effects.
func nonEscaping(a *ssa.Alloc) bool {
	seen := map[ssa.Value]bool{}
	var ok func(v ssa.Value) bool
	ok = func(v ssa.Value) bool {
		if seen[v] {
			return true
		}
		seen[v] = true
		refs := v.Referrers()
		if refs == nil {
			return false
		}
		for _, r := range *refs {
			switch u := r.(type) {
			case *ssa.Store:
				if u.Val == v {
					// kept in a local variable of the function: every value loaded back from that variable must not escape either
					cell, isLocal := u.Addr.(*ssa.Alloc)
					if !isLocal || cell.Heap {
						return false
					}
					crefs := cell.Referrers()
					if crefs == nil {
						return false
					}
					for _, cr := range *crefs {
						switch cu := cr.(type) {
						case *ssa.Store:
							if cu.Addr != cell {
								return false
							}
						case *ssa.UnOp:
							if !ok(cu) {
								return false
							}
						case *ssa.DebugRef:
						default:
							return false
						}
					}
				}
			case *ssa.UnOp, *ssa.Return, *ssa.DebugRef, *ssa.BinOp, *ssa.If:
			case *ssa.FieldAddr:
				if !ok(u) {
					return false
				}
			case *ssa.IndexAddr:
				if !ok(u) {
					return false
				}
			case *ssa.Phi:
				if !ok(u) {
					return false
				}
			case *ssa.MakeInterface:
				if !ok(u) {
					return false
				}
			default:
				return false
			}
		}
		return true
	}
	return ok(a)
}
