package main

import "golang.org/x/tools/go/ssa"

// nonEscaping: a pointer created by this allocation is never handed to a callee, stored as a value, captured or sent:
// it is only dereferenced, compared, merged and returned. No call made by the function can reach the object, so its
// fields survive calls with unknown effects.
func nonEscaping(a *ssa.Alloc) bool {
	seen := map[ssa.Value]bool{}
	var ok func(v ssa.Value) bool
	ok = func(v ssa.Value) bool {
		if seen[v] {
			return true
		}
		seen[v] = true
		refs := v.Referrers()
		if refs == nil {
			return false
		}
		for _, r := range *refs {
			switch u := r.(type) {
			case *ssa.Store:
				if u.Val == v {
					// kept in a local variable of the function: every value loaded back from that variable must not escape either
					cell, isLocal := u.Addr.(*ssa.Alloc)
					if !isLocal || cell.Heap {
						return false
					}
					crefs := cell.Referrers()
					if crefs == nil {
						return false
					}
					for _, cr := range *crefs {
						switch cu := cr.(type) {
						case *ssa.Store:
							if cu.Addr != cell {
								return false
							}
						case *ssa.UnOp:
							if !ok(cu) {
								return false
							}
						case *ssa.DebugRef:
						default:
							return false
						}
					}
				}
			case *ssa.UnOp, *ssa.Return, *ssa.DebugRef, *ssa.BinOp, *ssa.If:
			case *ssa.FieldAddr:
				if !ok(u) {
					return false
				}
			case *ssa.IndexAddr:
				if !ok(u) {
					return false
				}
			case *ssa.Phi:
				if !ok(u) {
					return false
				}
			case *ssa.MakeInterface:
				if !ok(u) {
					return false
				}
			default:
				return false
			}
		}
		return true
	}
	return ok(a)
}

// escapeSites: the instructions through which a pointer created by this allocation can become known to other code
// (passed to a call, stored somewhere other than a local variable of the function, captured, sent, converted, ...).
// ok is false when the uses cannot be enumerated. Before any of these instructions can have executed, no callee can
// reach the object: its fields survive calls with unknown effects (a flow-sensitive refinement of nonEscaping).
func escapeSites(a *ssa.Alloc) (sites []ssa.Instruction, ok bool) {
	seen := map[ssa.Value]bool{}
	ok = true
	var walk func(v ssa.Value)
	walk = func(v ssa.Value) {
		if seen[v] || !ok {
			return
		}
		seen[v] = true
		refs := v.Referrers()
		if refs == nil {
			ok = false
			return
		}
		for _, r := range *refs {
			switch u := r.(type) {
			case *ssa.Store:
				if u.Val == v {
					cell, isLocal := u.Addr.(*ssa.Alloc)
					if !isLocal || cell.Heap {
						sites = append(sites, u)
						continue
					}
					crefs := cell.Referrers()
					if crefs == nil {
						ok = false
						return
					}
					for _, cr := range *crefs {
						switch cu := cr.(type) {
						case *ssa.Store:
							if cu.Addr != cell {
								sites = append(sites, cu)
							}
						case *ssa.UnOp:
							walk(cu)
						case *ssa.DebugRef:
						default:
							sites = append(sites, cr)
						}
					}
				}
			case *ssa.UnOp, *ssa.Return, *ssa.DebugRef, *ssa.BinOp, *ssa.If:
			case *ssa.FieldAddr:
				walk(u)
			case *ssa.IndexAddr:
				walk(u)
			case *ssa.Phi:
				walk(u)
			case *ssa.MakeInterface:
				walk(u)
			default:
				sites = append(sites, r)
			}
		}
	}
	walk(a)
	return sites, ok
}

// mayPrecede: can instruction e have executed before instruction p executes (same function)?
func mayPrecede(e, p ssa.Instruction) bool {
	eb, pb := e.Block(), p.Block()
	if eb == nil || pb == nil {
		return true
	}
	if eb == pb {
		for _, ins := range eb.Instrs {
			if ins == e {
				return true // e comes first in the block
			}
			if ins == p {
				break
			}
		}
	}
	// a path of at least one edge from e's block to p's block
	seen := map[*ssa.BasicBlock]bool{}
	stack := append([]*ssa.BasicBlock{}, eb.Succs...)
	for len(stack) > 0 {
		b := stack[len(stack)-1]
		stack = stack[:len(stack)-1]
		if seen[b] {
			continue
		}
		seen[b] = true
		if b == pb {
			return true
		}
		stack = append(stack, b.Succs...)
	}
	return false
}
