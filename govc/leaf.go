package main

// Pure leaf functions (protobuf getters and the like): a call is represented as the application of an SMT define-fun
// whose body is the function's real SSA evaluated over parameter placeholders. Code and contracts then share the same
// terms for the same getter chain.

import (
	"fmt"

	"golang.org/x/tools/go/ssa"
)

func sameState(a, b *State) bool {
	if a.gen != b.gen || len(a.over) != len(b.over) {
		return false
	}
	for k, v := range a.over {
		if w, ok := b.over[k]; !ok || w != v {
			return false
		}
	}
	return true
}

// leafApply tries to evaluate f as a pure leaf on state st. ok=false if f writes state, may fail a run-time check, or
// needs assumptions.
func (fg *FnGen) leafApply(fr *Frame, f *ssa.Function, args []*Term, st *State) ([]*Term, bool) {
	if bad, seen := fg.g.notLeaf[f]; seen && bad {
		return nil, false
	}
	if len(f.FreeVars) > 0 || f.Signature.Results().Len() == 0 {
		fg.g.notLeaf[f] = true
		return nil, false
	}
	var params []*Term
	for i, p := range f.Params {
		params = append(params, Bound(fmt.Sprintf("a%d!%s", i, sanitize(f.Name())), fg.g.ti.sortOf(p.Type())))
	}
	if len(params) != len(args) {
		return nil, false
	}
	for i := range args {
		if args[i].Sort != params[i].Sort {
			return nil, false
		}
	}
	savedObls, savedAssumes, savedNoDefs, savedAllocs := len(fg.obls), len(fg.assumes), fg.noDefs, fg.allocs
	savedNotes := len(fg.notes)
	fg.noDefs = true
	fg.fresh++
	sub := fg.newFrame(f, fr.depth+1, fmt.Sprintf("%sleaf#%d~%s~", fr.prefix, fg.fresh, f.Name()))
	sub.stack = append(append([]*ssa.Function{}, fr.stack...), f)
	for i, p := range f.Params {
		sub.vals[p] = params[i]
	}
	base := st.clone()
	ok := true
	func() {
		defer func() {
			if r := recover(); r != nil {
				ok = false
			}
		}()
		fg.runBlocks(sub, base, True)
	}()
	pure := ok && len(fg.obls) == savedObls && len(fg.assumes) == savedAssumes && len(sub.rets) > 0 && len(fg.notes) == savedNotes
	if pure {
		for _, r := range sub.rets {
			if !sameState(r.state, st) {
				pure = false
			}
		}
	}
	fg.obls = fg.obls[:savedObls]
	fg.assumes = fg.assumes[:savedAssumes]
	fg.noDefs = savedNoDefs
	fg.allocs = savedAllocs
	if !pure {
		fg.g.notLeaf[f] = true
		return nil, false
	}
	nres := len(sub.rets[0].results)
	var out []*Term
	for k := 0; k < nres; k++ {
		def := sub.rets[len(sub.rets)-1].results[k]
		for i := len(sub.rets) - 2; i >= 0; i-- {
			def = Ite(sub.rets[i].reach, sub.rets[i].results[k], def)
		}
		d := fg.leafDef(sanitize(shortDesc(f.String())), params, def, k)
		out = append(out, App(d.Name, d.Sort, args...))
	}
	fg.g.inlined[f.String()] = true
	return out, true
}
