package main

// Monitors: ghost variables updated after matching calls, assertions checked before matching calls, on all paths.

import (
	"fmt"
	"go/token"
	"go/types"
	"strings"
)

func ghostSortOf(gd GhostDecl) string {
	switch gd.Sort {
	case "slice", "[]byte", "[]string":
		return SSlice
	}
	if strings.HasPrefix(gd.Sort, "*") {
		return SInt
	}
	if strings.HasPrefix(gd.Sort, "[]") {
		return SSlice
	}
	return sortOfDeclType(gd.Sort)
}

func (fg *FnGen) bindGhosts(env *Env, st *State) {
	if st == nil {
		return
	}
	for _, m := range fg.monitors {
		for _, gd := range m.Ghosts {
			var ty types.Type
			if gd.Sort == "error" {
				ty = types.Universe.Lookup("error").Type()
			} else if strings.HasPrefix(gd.Sort, "*") || strings.HasPrefix(gd.Sort, "[]") {
				if t, err := env.resolveType(&CE{Kind: "str", Str: gd.Sort}); err == nil {
					ty = t
				}
			} else if gd.Sort == "string" {
				ty = types.Typ[types.String]
			}
			env.vars[gd.Name] = CVal{T: fg.lookup(st, "ghost:"+gd.Name, ghostSortOf(gd)), Ty: ty}
		}
	}
}

func (fg *FnGen) monitorBefore(fr *Frame, d callDesc, args []*Term, argTypes []types.Type, st *State, reach *Term, pos token.Pos) {
	for _, m := range fg.monitors {
		for _, r := range m.Rules {
			if r.Kind != "before" {
				continue
			}
			hit := matchAny(r.Callees, d)
			via := ""
			if !hit && d.static != nil && len(r.ArgBind) == 0 {
				if w := fg.g.mayReach(d.static, r.Callees); w != "" {
					hit, via = true, w
				}
			}
			if !hit {
				continue
			}
			env := fg.baseEnv(fr, st)
			fg.bindLocalsHere(fr, env)
			for i, n := range r.ArgBind {
				if i < len(args) && n != "_" {
					var ty types.Type
					if i < len(argTypes) {
						ty = argTypes[i]
					}
					env.vars[n] = CVal{T: args[i], Ty: ty}
				}
			}
			v, err := env.evalBool(r.Assert)
			k := fg.ordinal("monitor:" + m.Name + "@" + d.short)
			label := fmt.Sprintf("monitor:%s@%s:%d", m.Name, d.short, k)
			if err != nil {
				fg.bindFailure(label, err, pos)
				continue
			}
			o := fg.addObl("monitor", label, reach, v, pos, r.Src)
			if o != nil && via != "" {
				o.Note = "callee may reach " + via
			}
			if o != nil && fg.ct != nil {
				// `option monitor_props name=Cxx[,Cyy]`: the obligations of this monitor belong to these properties only
				for _, kv := range strings.Fields(fg.ct.Options["monitor_props"]) {
					if k, v, ok := strings.Cut(kv, "="); ok && k == m.Name {
						o.Props = strings.Split(v, ",")
					}
				}
			}
			// an assertion that is proved is a fact for what follows (assert-then-assume) — except an assertion that is
			// syntactically false or belongs to a re-tagged monitor (known findings live there): assuming a failed
			// assertion would make every later obligation of the function vacuous and hide other violations
			retagged := false
			if fg.ct != nil {
				for _, kv := range strings.Fields(fg.ct.Options["monitor_props"]) {
					if k, _, ok := strings.Cut(kv, "="); ok && k == m.Name {
						retagged = true
					}
				}
			}
			if v != False && !retagged {
				fg.assumeIf(reach, v)
			}
		}
	}
}

func (fg *FnGen) monitorAfter(fr *Frame, d callDesc, args, res []*Term, argTypes []types.Type, st *State, reach *Term) *State {
	for _, m := range fg.monitors {
		for _, r := range m.Rules {
			if r.Kind != "after" || !matchAny(r.Callees, d) {
				continue
			}
			env := fg.baseEnv(fr, st)
			fg.bindLocalsHere(fr, env)
			if len(r.Rets) == 1 && len(res) > 0 {
				env.vars[r.Rets[0]] = CVal{T: res[len(res)-1], Ty: d.sig.Results().At(len(res) - 1).Type()}
			} else {
				for i, n := range r.Rets {
					if i < len(res) && n != "_" {
						env.vars[n] = CVal{T: res[i], Ty: d.sig.Results().At(i).Type()}
					}
				}
			}
			for i, n := range r.ArgBind {
				if i < len(args) && n != "_" {
					var ty types.Type
					if i < len(argTypes) {
						ty = argTypes[i]
					}
					env.vars[n] = CVal{T: args[i], Ty: ty}
				}
			}
			st = st.clone()
			// simultaneous assignment: evaluate all right-hand sides first
			type upd struct {
				name string
				v    *Term
			}
			var upds []upd
			for _, gs := range r.Sets {
				var gd *GhostDecl
				for i := range m.Ghosts {
					if m.Ghosts[i].Name == gs.Name {
						gd = &m.Ghosts[i]
					}
				}
				if gd == nil {
					fg.bindFailure("monitor:"+m.Name+":set", fmt.Errorf("unknown ghost %s", gs.Name), token.NoPos)
					continue
				}
				v, err := env.eval(gs.Expr)
				if err != nil {
					fg.bindFailure("monitor:"+m.Name+":set:"+gs.Name, err, token.NoPos)
					continue
				}
				srt := ghostSortOf(*gd)
				if v.IsNil {
					v.T = nilOfSort(srt)
				}
				if v.T == nil || v.T.Sort != srt {
					fg.bindFailure("monitor:"+m.Name+":set:"+gs.Name, fmt.Errorf("sort mismatch"), token.NoPos)
					continue
				}
				upds = append(upds, upd{gs.Name, v.T})
			}
			for _, u := range upds {
				cur := fg.lookup(st, "ghost:"+u.name, u.v.Sort)
				// the update happens only if the call is reached (it is: we are on this path), so plain assignment
				_ = cur
				fg.set(st, "ghost:"+u.name, u.v.Sort, u.v)
			}
		}
	}
	return st
}

// mentionsCalleeGhost: the evaluation error is an unknown name that is one of the callee's ghost variables.
func mentionsCalleeGhost(ct *Contract, err error) bool {
	for _, m := range ct.Monitors {
		for _, gd := range m.Ghosts {
			if strings.Contains(err.Error(), fmt.Sprintf("unknown name %q", gd.Name)) {
				return true
			}
		}
	}
	return false
}

// bindLocalsHere: source-level locals of the function under verification visible at the current program point
// (parameters and ghosts win over locals of the same name).
func (fg *FnGen) bindLocalsHere(fr *Frame, env *Env) {
	if !fr.top || fr.locals == nil || fr.curBlock == nil {
		return
	}
	for ln, lv := range fr.locals[fr.curBlock] {
		if _, taken := env.vars[ln]; !taken && lv.T != nil {
			env.vars[ln] = lv
		}
	}
}
