package main

// Monitors: ghost variables updated after matching calls, assertions checked before matching calls, on all paths.

import (
	"fmt"
	"go/token"
	"go/types"
)

func ghostSortOf(gd GhostDecl) string {
	switch gd.Sort {
	case "slice":
		return SSlice
	}
	return sortOfDeclType(gd.Sort)
}

func (fg *FnGen) bindGhosts(env *Env, st *State) {
	if st == nil {
		return
	}
	for _, m := range fg.monitors {
		for _, gd := range m.Ghosts {
			var ty types.Type
			if gd.Sort == "error" {
				ty = types.Universe.Lookup("error").Type()
			}
			env.vars[gd.Name] = CVal{T: fg.lookup(st, "ghost:"+gd.Name, ghostSortOf(gd)), Ty: ty}
		}
	}
}

func (fg *FnGen) monitorBefore(fr *Frame, d callDesc, args []*Term, st *State, reach *Term, pos token.Pos) {
	for _, m := range fg.monitors {
		for _, r := range m.Rules {
			if r.Kind != "before" {
				continue
			}
			hit := matchAny(r.Callees, d)
			via := ""
			if !hit && d.static != nil {
				if w := fg.g.mayReach(d.static, r.Callees); w != "" {
					hit, via = true, w
				}
			}
			if !hit {
				continue
			}
			env := fg.baseEnv(fr, st)
			for i, n := range r.ArgBind {
				if i < len(args) && n != "_" {
					env.vars[n] = CVal{T: args[i]}
				}
			}
			v, err := env.evalBool(r.Assert)
			k := fg.ordinal("monitor:" + m.Name + "@" + d.short)
			label := fmt.Sprintf("monitor:%s@%s:%d", m.Name, d.short, k)
			if err != nil {
				fg.bindFailure(label, err, pos)
				continue
			}
			o := fg.addObl("monitor", label, reach, v, pos, r.Src)
			if o != nil && via != "" {
				o.Note = "callee may reach " + via
			}
		}
	}
}

func (fg *FnGen) monitorAfter(fr *Frame, d callDesc, args, res []*Term, st *State, reach *Term) *State {
	for _, m := range fg.monitors {
		for _, r := range m.Rules {
			if r.Kind != "after" || !matchAny(r.Callees, d) {
				continue
			}
			env := fg.baseEnv(fr, st)
			if len(r.Rets) == 1 && len(res) > 0 {
				env.vars[r.Rets[0]] = CVal{T: res[len(res)-1], Ty: d.sig.Results().At(len(res) - 1).Type()}
			} else {
				for i, n := range r.Rets {
					if i < len(res) && n != "_" {
						env.vars[n] = CVal{T: res[i], Ty: d.sig.Results().At(i).Type()}
					}
				}
			}
			for i, n := range r.ArgBind {
				if i < len(args) && n != "_" {
					env.vars[n] = CVal{T: args[i]}
				}
			}
			st = st.clone()
			// simultaneous assignment: evaluate all right-hand sides first
			type upd struct {
				name string
				v    *Term
			}
			var upds []upd
			for _, gs := range r.Sets {
				var gd *GhostDecl
				for i := range m.Ghosts {
					if m.Ghosts[i].Name == gs.Name {
						gd = &m.Ghosts[i]
					}
				}
				if gd == nil {
					fg.bindFailure("monitor:"+m.Name+":set", fmt.Errorf("unknown ghost %s", gs.Name), token.NoPos)
					continue
				}
				v, err := env.eval(gs.Expr)
				if err != nil {
					fg.bindFailure("monitor:"+m.Name+":set:"+gs.Name, err, token.NoPos)
					continue
				}
				srt := ghostSortOf(*gd)
				if v.IsNil {
					v.T = nilOfSort(srt)
				}
				if v.T == nil || v.T.Sort != srt {
					fg.bindFailure("monitor:"+m.Name+":set:"+gs.Name, fmt.Errorf("sort mismatch"), token.NoPos)
					continue
				}
				upds = append(upds, upd{gs.Name, v.T})
			}
			for _, u := range upds {
				cur := fg.lookup(st, "ghost:"+u.name, u.v.Sort)
				// the update happens only if the call is reached (it is: we are on this path), so plain assignment
				_ = cur
				fg.set(st, "ghost:"+u.name, u.v.Sort, u.v)
			}
		}
	}
	return st
}
