package main

// Contract expression language: tokenizer and Pratt parser.

import (
	"fmt"
	"strconv"
	"strings"
)

type CE struct {
	Kind string // ident, int, str, bool, nil, unop, binop, call, index, slice, field, quant, cond, old, tuple
	Op   string
	Name string
	Int  int64
	Str  string
	Args []*CE
	Vars []CVarDecl // quant
	Pos  int
}

type CVarDecl struct {
	Name string
	Type string // "int", "string", "bool", or "" (int default)
}

type ctok struct {
	kind string // id, int, str, chr, op, eof
	text string
	pos  int
}

func ctokenize(s string) ([]ctok, error) {
	var toks []ctok
	i := 0
	for i < len(s) {
		c := s[i]
		switch {
		case c == ' ' || c == '\t' || c == '\n':
			i++
		case c >= '0' && c <= '9':
			j := i
			if c == '0' && i+1 < len(s) && (s[i+1] == 'x' || s[i+1] == 'X') {
				j = i + 2
				for j < len(s) && strings.IndexByte("0123456789abcdefABCDEF", s[j]) >= 0 {
					j++
				}
			} else {
				for j < len(s) && s[j] >= '0' && s[j] <= '9' {
					j++
				}
			}
			toks = append(toks, ctok{"int", s[i:j], i})
			i = j
		case c == '_' || c == '$' || c == '#' || c >= 'a' && c <= 'z' || c >= 'A' && c <= 'Z':
			j := i + 1
			for j < len(s) && (s[j] == '_' || s[j] >= 'a' && s[j] <= 'z' || s[j] >= 'A' && s[j] <= 'Z' || s[j] >= '0' && s[j] <= '9') {
				j++
			}
			toks = append(toks, ctok{"id", s[i:j], i})
			i = j
		case c == '"':
			j := i + 1
			for j < len(s) && s[j] != '"' {
				if s[j] == '\\' {
					j++
				}
				j++
			}
			if j >= len(s) {
				return nil, fmt.Errorf("unterminated string at %d", i)
			}
			v, err := strconv.Unquote(s[i : j+1])
			if err != nil {
				return nil, fmt.Errorf("bad string literal %s", s[i:j+1])
			}
			toks = append(toks, ctok{"str", v, i})
			i = j + 1
		case c == '\'':
			j := i + 1
			for j < len(s) && s[j] != '\'' {
				if s[j] == '\\' {
					j++
				}
				j++
			}
			if j >= len(s) {
				return nil, fmt.Errorf("unterminated char at %d", i)
			}
			v, _, _, err := strconv.UnquoteChar(s[i+1:j], '\'')
			if err != nil {
				return nil, fmt.Errorf("bad char literal %s", s[i:j+1])
			}
			toks = append(toks, ctok{"int", strconv.Itoa(int(v)), i})
			i = j + 1
		default:
			ops := []string{"<==>", "==>", "::", "==", "!=", "<=", ">=", "&&", "||", "(", ")", "[", "]", ",", ":", "?", "+", "-", "*", "/", "%", "<", ">", "!", ".", "=", "{", "}"}
			matched := false
			for _, op := range ops {
				if strings.HasPrefix(s[i:], op) {
					toks = append(toks, ctok{"op", op, i})
					i += len(op)
					matched = true
					break
				}
			}
			if !matched {
				return nil, fmt.Errorf("unexpected character %q at %d in %q", c, i, s)
			}
		}
	}
	toks = append(toks, ctok{"eof", "", len(s)})
	return toks, nil
}

type cparser struct {
	toks []ctok
	p    int
	src  string
}

func ParseCE(src string) (*CE, error) {
	toks, err := ctokenize(src)
	if err != nil {
		return nil, err
	}
	ps := &cparser{toks: toks, src: src}
	e, err := ps.expr()
	if err != nil {
		return nil, err
	}
	if ps.peek().kind != "eof" {
		return nil, fmt.Errorf("unexpected %q at %d in %q", ps.peek().text, ps.peek().pos, src)
	}
	return e, nil
}

func (p *cparser) peek() ctok { return p.toks[p.p] }
func (p *cparser) next() ctok { t := p.toks[p.p]; p.p++; return t }
func (p *cparser) isOp(s string) bool {
	return p.peek().kind == "op" && p.peek().text == s
}
func (p *cparser) expect(s string) error {
	if !p.isOp(s) {
		return fmt.Errorf("expected %q at %d, got %q in %q", s, p.peek().pos, p.peek().text, p.src)
	}
	p.p++
	return nil
}

func (p *cparser) expr() (*CE, error) {
	t := p.peek()
	if t.kind == "id" && (t.text == "forall" || t.text == "exists") {
		p.next()
		var vars []CVarDecl
		for {
			n := p.next()
			if n.kind != "id" {
				return nil, fmt.Errorf("expected bound variable name in %q", p.src)
			}
			d := CVarDecl{Name: n.text}
			if p.peek().kind == "id" {
				d.Type = p.next().text
			}
			vars = append(vars, d)
			if p.isOp(",") {
				p.next()
				continue
			}
			break
		}
		// propagate types leftwards: "i, j int"
		for i := len(vars) - 2; i >= 0; i-- {
			if vars[i].Type == "" {
				vars[i].Type = vars[i+1].Type
			}
		}
		if err := p.expect("::"); err != nil {
			return nil, err
		}
		body, err := p.expr()
		if err != nil {
			return nil, err
		}
		return &CE{Kind: "quant", Op: t.text, Vars: vars, Args: []*CE{body}, Pos: t.pos}, nil
	}
	return p.iff()
}

func (p *cparser) iff() (*CE, error) {
	l, err := p.implies()
	if err != nil {
		return nil, err
	}
	for p.isOp("<==>") {
		p.next()
		r, err := p.implies()
		if err != nil {
			return nil, err
		}
		l = &CE{Kind: "binop", Op: "<==>", Args: []*CE{l, r}}
	}
	return l, nil
}

func (p *cparser) implies() (*CE, error) {
	l, err := p.cond()
	if err != nil {
		return nil, err
	}
	if p.isOp("==>") {
		p.next()
		var r *CE
		if t := p.peek(); t.kind == "id" && (t.text == "forall" || t.text == "exists") {
			r, err = p.expr()
		} else {
			r, err = p.implies()
		}
		if err != nil {
			return nil, err
		}
		return &CE{Kind: "binop", Op: "==>", Args: []*CE{l, r}}, nil
	}
	return l, nil
}

func (p *cparser) cond() (*CE, error) {
	c, err := p.binary(0)
	if err != nil {
		return nil, err
	}
	if p.isOp("?") {
		p.next()
		a, err := p.cond()
		if err != nil {
			return nil, err
		}
		if err := p.expect(":"); err != nil {
			return nil, err
		}
		b, err := p.cond()
		if err != nil {
			return nil, err
		}
		return &CE{Kind: "cond", Args: []*CE{c, a, b}}, nil
	}
	return c, nil
}

var binPrec = []map[string]bool{
	{"||": true},
	{"&&": true},
	{"==": true, "!=": true, "<": true, "<=": true, ">": true, ">=": true},
	{"+": true, "-": true},
	{"*": true, "/": true, "%": true},
}

func (p *cparser) binary(level int) (*CE, error) {
	if level >= len(binPrec) {
		return p.unary()
	}
	l, err := p.binary(level + 1)
	if err != nil {
		return nil, err
	}
	for p.peek().kind == "op" && binPrec[level][p.peek().text] {
		op := p.next().text
		var r *CE
		if t := p.peek(); level <= 1 && t.kind == "id" && (t.text == "forall" || t.text == "exists") {
			r, err = p.expr()
		} else {
			r, err = p.binary(level + 1)
		}
		if err != nil {
			return nil, err
		}
		l = &CE{Kind: "binop", Op: op, Args: []*CE{l, r}}
	}
	return l, nil
}

func (p *cparser) unary() (*CE, error) {
	if p.isOp("!") {
		p.next()
		x, err := p.unary()
		if err != nil {
			return nil, err
		}
		return &CE{Kind: "unop", Op: "!", Args: []*CE{x}}, nil
	}
	if p.isOp("-") {
		p.next()
		x, err := p.unary()
		if err != nil {
			return nil, err
		}
		return &CE{Kind: "unop", Op: "-", Args: []*CE{x}}, nil
	}
	return p.postfix()
}

func (p *cparser) postfix() (*CE, error) {
	x, err := p.primary()
	if err != nil {
		return nil, err
	}
	for {
		switch {
		case p.isOp("."):
			p.next()
			n := p.next()
			if n.kind != "id" && n.kind != "int" {
				return nil, fmt.Errorf("expected field name after '.' in %q", p.src)
			}
			x = &CE{Kind: "field", Name: n.text, Args: []*CE{x}}
		case p.isOp("("):
			p.next()
			var args []*CE
			for !p.isOp(")") {
				a, err := p.expr()
				if err != nil {
					return nil, err
				}
				args = append(args, a)
				if p.isOp(",") {
					p.next()
				} else {
					break
				}
			}
			if err := p.expect(")"); err != nil {
				return nil, err
			}
			x = &CE{Kind: "call", Args: append([]*CE{x}, args...)}
		case p.isOp("["):
			p.next()
			var lo, hi *CE
			if !p.isOp(":") {
				lo, err = p.expr()
				if err != nil {
					return nil, err
				}
			}
			if p.isOp(":") {
				p.next()
				if !p.isOp("]") {
					hi, err = p.expr()
					if err != nil {
						return nil, err
					}
				}
				if err := p.expect("]"); err != nil {
					return nil, err
				}
				x = &CE{Kind: "slice", Args: []*CE{x, lo, hi}}
			} else {
				if err := p.expect("]"); err != nil {
					return nil, err
				}
				x = &CE{Kind: "index", Args: []*CE{x, lo}}
			}
		default:
			return x, nil
		}
	}
}

func (p *cparser) primary() (*CE, error) {
	t := p.next()
	switch t.kind {
	case "int":
		v, err := strconv.ParseInt(t.text, 0, 64)
		if err != nil {
			return nil, fmt.Errorf("bad int %q", t.text)
		}
		return &CE{Kind: "int", Int: v}, nil
	case "str":
		return &CE{Kind: "str", Str: t.text}, nil
	case "id":
		switch t.text {
		case "true", "false":
			return &CE{Kind: "bool", Name: t.text}, nil
		case "nil":
			return &CE{Kind: "nil"}, nil
		}
		return &CE{Kind: "ident", Name: t.text, Pos: t.pos}, nil
	case "op":
		if t.text == "(" {
			e, err := p.expr()
			if err != nil {
				return nil, err
			}
			if p.isOp(",") {
				// tuple
				args := []*CE{e}
				for p.isOp(",") {
					p.next()
					e2, err := p.expr()
					if err != nil {
						return nil, err
					}
					args = append(args, e2)
				}
				if err := p.expect(")"); err != nil {
					return nil, err
				}
				return &CE{Kind: "tuple", Args: args}, nil
			}
			if err := p.expect(")"); err != nil {
				return nil, err
			}
			return e, nil
		}
	}
	return nil, fmt.Errorf("unexpected token %q at %d in %q", t.text, t.pos, p.src)
}

func (e *CE) String() string {
	if e == nil {
		return ""
	}
	switch e.Kind {
	case "ident":
		return e.Name
	case "int":
		return strconv.FormatInt(e.Int, 10)
	case "str":
		return strconv.Quote(e.Str)
	case "bool":
		return e.Name
	case "nil":
		return "nil"
	case "unop":
		return e.Op + e.Args[0].String()
	case "binop":
		return "(" + e.Args[0].String() + " " + e.Op + " " + e.Args[1].String() + ")"
	case "cond":
		return "(" + e.Args[0].String() + " ? " + e.Args[1].String() + " : " + e.Args[2].String() + ")"
	case "field":
		return e.Args[0].String() + "." + e.Name
	case "call":
		var a []string
		for _, x := range e.Args[1:] {
			a = append(a, x.String())
		}
		return e.Args[0].String() + "(" + strings.Join(a, ", ") + ")"
	case "index":
		return e.Args[0].String() + "[" + e.Args[1].String() + "]"
	case "slice":
		return e.Args[0].String() + "[" + e.Args[1].String() + ":" + e.Args[2].String() + "]"
	case "quant":
		var vs []string
		for _, v := range e.Vars {
			vs = append(vs, v.Name+" "+v.Type)
		}
		return "(" + e.Op + " " + strings.Join(vs, ", ") + " :: " + e.Args[0].String() + ")"
	case "tuple":
		var a []string
		for _, x := range e.Args {
			a = append(a, x.String())
		}
		return "(" + strings.Join(a, ", ") + ")"
	}
	return "?"
}
