package main

// String abstraction: a sound relaxation for obligations whose proof does not need string-theory reasoning. The sort
// String becomes an uninterpreted sort, literals become pairwise distinct constants, string operations become
// uninterpreted functions. unsat under the abstraction implies unsat of the original query (every string model
// induces a model of the abstraction), so it may only be used to discharge, never to refute.

import (
	"fmt"
	"regexp"
	"sort"
	"strings"
)

var strSortRe = regexp.MustCompile(`(^|[ (])String($|[ )])`)

func mapSortU(s string) string {
	for strSortRe.MatchString(s) {
		s = strSortRe.ReplaceAllString(s, "${1}StrU${2}")
	}
	return s
}

type strAbstractor struct {
	lits  map[string]*Term
	cache map[*Term]*Term
}

func (a *strAbstractor) tr(t *Term) *Term {
	if r, ok := a.cache[t]; ok {
		return r
	}
	var r *Term
	switch t.Kind {
	case KStrLit:
		c, ok := a.lits[t.Str]
		if !ok {
			c = Const(fmt.Sprintf("strlit!%d", len(a.lits)), "StrU")
			a.lits[t.Str] = c
		}
		r = c
	case KConst:
		r = Const(t.Op, mapSortU(t.Sort))
	case KBound:
		r = Bound(t.Op, mapSortU(t.Sort))
	case KIntLit, KBoolLit:
		r = t
	case KQuant:
		var q []*Term
		for _, b := range t.Q {
			q = append(q, a.tr(b))
		}
		r = &Term{Op: t.Op, Kind: KQuant, Q: q, Args: []*Term{a.tr(t.Args[0])}, Sort: SBool}
	default:
		args := make([]*Term, len(t.Args))
		for i, x := range t.Args {
			args[i] = a.tr(x)
		}
		op := t.Op
		if strings.HasPrefix(op, "str.") {
			op = "u_" + strings.NewReplacer(".", "_", "+", "cat", "<=", "le", "<", "lt").Replace(op) + fmt.Sprint(len(args))
		}
		r = &Term{Op: op, Args: args, Sort: mapSortU(t.Sort), Kind: KApp}
	}
	a.cache[t] = r
	return r
}

// ScriptAbstract renders the string-abstracted version of a query.
func ScriptAbstract(asserts []*Term, defs []*FunDef) string {
	a := &strAbstractor{lits: map[string]*Term{}, cache: map[*Term]*Term{}}
	var as2 []*Term
	for _, t := range asserts {
		as2 = append(as2, a.tr(t))
	}
	var defs2 []*FunDef
	for _, d := range defs {
		var ps []*Term
		for _, p := range d.Params {
			ps = append(ps, a.tr(p))
		}
		defs2 = append(defs2, &FunDef{Name: d.Name, Params: ps, Body: a.tr(d.Body), Sort: mapSortU(d.Sort), Order: d.Order})
	}
	if len(a.lits) > 1 {
		var ls []*Term
		var keys []string
		for k := range a.lits {
			keys = append(keys, k)
		}
		sort.Strings(keys)
		for _, k := range keys {
			ls = append(ls, a.lits[k])
		}
		as2 = append(as2, App("distinct", SBool, ls...))
	}
	return ScriptDA(as2, nil, defs2, true)
}
