package main

import (
	"bytes"
	"context"
	"fmt"
	"hash/fnv"
	"os"
	"os/exec"
	"path/filepath"
	"strings"
	"sync"
	"time"
)

type SolveResult struct {
	Status string // unsat | sat | unknown | timeout | error
	Solver string
	Secs   float64
	Output string
	Values map[string]string // get-value results (term text -> value text)
	All    map[string]string // per-solver status
}

type solverSpec struct {
	name string
	cmd  func(file string, timeoutS int) []string
}

var solvers = []solverSpec{
	{"z3-new", func(f string, t int) []string { return []string{"z3-new", fmt.Sprintf("-T:%d", t), f} }},
	{"z3", func(f string, t int) []string { return []string{"z3", fmt.Sprintf("-T:%d", t), f} }},
	{"cvc5", func(f string, t int) []string {
		return []string{"cvc5", "--strings-exp", fmt.Sprintf("--tlimit=%d", t*1000), f}
	}},
	// quantifier-oriented configurations (E-matching only / old arithmetic core; enumerative instantiation)
	{"z3-new-ematch", func(f string, t int) []string {
		return []string{"z3-new", "smt.mbqi=false", "smt.arith.solver=2", fmt.Sprintf("-T:%d", t), f}
	}},
	{"cvc5-enum", func(f string, t int) []string {
		return []string{"cvc5", "--strings-exp", "--full-saturate-quant", fmt.Sprintf("--tlimit=%d", t*1000), f}
	}},
}

var solverSem = make(chan struct{}, 16)

// Solve races all solvers on the script. If all=true, waits for all solvers and reports disagreement.
func Solve(script string, workdir, name string, timeoutS int, all bool) SolveResult {
	file := filepath.Join(workdir, sanitize(name)+".smt2")
	if err := os.WriteFile(file, []byte(script), 0o644); err != nil {
		return SolveResult{Status: "error", Output: err.Error()}
	}
	ctx, cancel := context.WithCancel(context.Background())
	defer cancel()
	type one struct {
		res SolveResult
	}
	ch := make(chan SolveResult, len(solvers))
	var wg sync.WaitGroup
	for _, s := range solvers {
		wg.Add(1)
		go func(s solverSpec) {
			defer wg.Done()
			solverSem <- struct{}{}
			defer func() { <-solverSem }()
			if ctx.Err() != nil {
				ch <- SolveResult{Status: "cancelled", Solver: s.name}
				return
			}
			args := s.cmd(file, timeoutS)
			start := time.Now()
			c := exec.CommandContext(ctx, args[0], args[1:]...)
			var out bytes.Buffer
			c.Stdout = &out
			c.Stderr = &out
			done := make(chan error, 1)
			go func() { done <- c.Run() }()
			select {
			case <-done:
			case <-time.After(time.Duration(timeoutS+2) * time.Second):
				if c.Process != nil {
					c.Process.Kill()
				}
				<-done
			}
			secs := time.Since(start).Seconds()
			txt := out.String()
			first := strings.TrimSpace(strings.SplitN(txt, "\n", 2)[0])
			st := "unknown"
			switch {
			case first == "unsat":
				st = "unsat"
			case first == "sat":
				st = "sat"
			case strings.Contains(first, "timeout") || first == "" && secs >= float64(timeoutS):
				st = "timeout"
			case strings.HasPrefix(first, "(error") || strings.Contains(txt, "(error"):
				st = "error"
				if strings.Contains(txt, "\nunsat") {
					st = "unsat"
				}
			case ctx.Err() != nil:
				st = "cancelled"
			}
			r := SolveResult{Status: st, Solver: s.name, Secs: secs, Output: txt}
			if st == "sat" {
				r.Values = parseGetValue(txt)
			}
			ch <- r
		}(s)
	}
	go func() { wg.Wait(); close(ch) }()
	allSt := map[string]string{}
	var best *SolveResult
	var lastOut string
	for r := range ch {
		allSt[r.Solver] = fmt.Sprintf("%s %.2fs", r.Status, r.Secs)
		if r.Status == "error" {
			lastOut = r.Solver + ": " + firstLines(r.Output, 5)
		}
		if r.Status == "sat" || r.Status == "unsat" {
			if best == nil {
				rr := r
				best = &rr
				if !all {
					cancel()
				}
			} else if best.Status != r.Status {
				best.Status = "disagree"
				best.Output = best.Output + "\n--- " + r.Solver + ": " + r.Output
			}
		}
	}
	if best != nil {
		best.All = allSt
		return *best
	}
	st := "unknown"
	for _, v := range allSt {
		if strings.HasPrefix(v, "timeout") {
			st = "timeout"
		}
	}
	return SolveResult{Status: st, All: allSt, Output: lastOut}
}

func firstLines(s string, n int) string {
	ls := strings.Split(s, "\n")
	if len(ls) > n {
		ls = ls[:n]
	}
	return strings.Join(ls, "\n")
}

func sanitize(s string) string {
	var sb strings.Builder
	for _, c := range s {
		if c >= 'a' && c <= 'z' || c >= 'A' && c <= 'Z' || c >= '0' && c <= '9' || c == '.' || c == '-' || c == '_' {
			sb.WriteRune(c)
		} else {
			sb.WriteByte('_')
		}
	}
	r := sb.String()
	if len(r) > 120 {
		// long names are cut, but never onto each other: two obligations must not share a query or replay file
		h := fnv.New64a()
		h.Write([]byte(s))
		r = fmt.Sprintf("%s_%x", r[:110], h.Sum64())
	}
	return r
}

// parseGetValue parses "((a v) (b v2))" following the sat line.
func parseGetValue(out string) map[string]string {
	i := strings.Index(out, "\n")
	if i < 0 {
		return nil
	}
	rest := strings.TrimSpace(out[i+1:])
	res := map[string]string{}
	toks := sexpParse(rest)
	if len(toks) == 0 {
		return res
	}
	top, ok := toks[0].([]any)
	if !ok {
		return res
	}
	for _, pr := range top {
		p, ok := pr.([]any)
		if !ok || len(p) != 2 {
			continue
		}
		res[sexpString(p[0])] = sexpString(p[1])
	}
	return res
}

// minimal s-expression reader
func sexpParse(s string) []any {
	var stack [][]any
	cur := []any{}
	i := 0
	for i < len(s) {
		c := s[i]
		switch {
		case c == '(':
			stack = append(stack, cur)
			cur = []any{}
			i++
		case c == ')':
			if len(stack) == 0 {
				return cur
			}
			done := cur
			cur = stack[len(stack)-1]
			stack = stack[:len(stack)-1]
			cur = append(cur, done)
			i++
		case c == ' ' || c == '\n' || c == '\t' || c == '\r':
			i++
		case c == '"':
			j := i + 1
			for j < len(s) {
				if s[j] == '"' {
					if j+1 < len(s) && s[j+1] == '"' {
						j += 2
						continue
					}
					break
				}
				j++
			}
			cur = append(cur, s[i:min(j+1, len(s))])
			i = j + 1
		case c == '|':
			j := strings.IndexByte(s[i+1:], '|')
			if j < 0 {
				j = len(s) - i - 2
			}
			cur = append(cur, s[i:i+j+2])
			i = i + j + 2
		default:
			j := i
			for j < len(s) && !strings.ContainsRune("() \n\t\r", rune(s[j])) {
				j++
			}
			cur = append(cur, s[i:j])
			i = j
		}
	}
	return cur
}

func sexpString(x any) string {
	switch v := x.(type) {
	case string:
		return v
	case []any:
		var parts []string
		for _, y := range v {
			parts = append(parts, sexpString(y))
		}
		return "(" + strings.Join(parts, " ") + ")"
	}
	return ""
}

// decodeSMTString turns an SMT-LIB string literal (with quotes) into raw bytes; ok=false if a code point > 255 occurs.
func decodeSMTString(lit string) (string, bool) {
	if len(lit) < 2 || lit[0] != '"' {
		return "", false
	}
	body := lit[1 : len(lit)-1]
	var out []byte
	ok := true
	for i := 0; i < len(body); {
		if body[i] == '"' && i+1 < len(body) && body[i+1] == '"' {
			out = append(out, '"')
			i += 2
			continue
		}
		if strings.HasPrefix(body[i:], `\u{`) {
			j := strings.IndexByte(body[i:], '}')
			if j > 0 {
				var v int
				fmt.Sscanf(body[i+3:i+j], "%x", &v)
				if v > 255 {
					ok = false
					v = '?'
				}
				out = append(out, byte(v))
				i += j + 1
				continue
			}
		}
		if strings.HasPrefix(body[i:], `\u`) && i+6 <= len(body) {
			var v int
			if _, err := fmt.Sscanf(body[i+2:i+6], "%x", &v); err == nil {
				if v > 255 {
					ok = false
					v = '?'
				}
				out = append(out, byte(v))
				i += 6
				continue
			}
		}
		out = append(out, body[i])
		i++
	}
	return string(out), ok
}
