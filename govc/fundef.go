package main

// SMT function definitions (define-fun) for inlined leaf functions used inside contracts: the body is computed once
// over parameter placeholders, applications keep their arguments unexpanded (terms stay linear in size).

import (
	"sort"
	"strings"
)

type FunDef struct {
	Name   string
	Params []*Term // bound variables
	Body   *Term
	Sort   string
	Order  int
}

// defsUsed returns the definitions reachable from the given terms, in creation order.
func defsUsed(all map[string]*FunDef, terms []*Term) []*FunDef {
	if len(all) == 0 {
		return nil
	}
	used := map[string]*FunDef{}
	seen := map[*Term]bool{}
	var walk func(t *Term)
	walk = func(t *Term) {
		if seen[t] {
			return
		}
		seen[t] = true
		if t.Kind == KApp {
			if d, ok := all[t.Op]; ok {
				if _, done := used[d.Name]; !done {
					used[d.Name] = d
					walk(d.Body)
				}
			}
		}
		for _, a := range t.Args {
			walk(a)
		}
	}
	for _, t := range terms {
		walk(t)
	}
	var out []*FunDef
	for _, d := range used {
		out = append(out, d)
	}
	sort.Slice(out, func(i, j int) bool { return out[i].Order < out[j].Order })
	return out
}

// ScriptD renders a script with function definitions.
func ScriptD(asserts []*Term, getValues []*Term, defs []*FunDef) string {
	return ScriptDA(asserts, getValues, defs, false)
}

// ScriptDA: abstract=true maps String field sorts of datatypes to the uninterpreted sort StrU (see abstr.go).
func ScriptDA(asserts []*Term, getValues []*Term, defs []*FunDef, abstract bool) string {
	p := NewPrinter()
	seen := map[*Term]bool{}
	for _, a := range asserts {
		p.collect(a, seen)
	}
	for _, g := range getValues {
		p.collect(g, seen)
	}
	defined := map[string]bool{}
	for _, d := range defs {
		p.collect(d.Body, seen)
		p.noteSort(d.Sort)
		for _, q := range d.Params {
			p.noteSort(q.Sort)
		}
		defined[d.Name] = true
	}
	var sb strings.Builder
	sb.WriteString("(set-option :produce-models true)\n(set-logic ALL)\n")
	var us []string
	for s := range p.usorts {
		us = append(us, s)
	}
	sort.Strings(us)
	for _, s := range us {
		sb.WriteString("(declare-sort " + quoteSym(s) + " 0)\n")
	}
	for i := 0; i < len(p.dtOrder); i++ {
		dt := p.dts[p.dtOrder[i]]
		sb.WriteString("(declare-datatypes ((" + quoteSym(dt.Name) + " 0)) (((" + quoteSym(dt.Ctor))
		for j, f := range dt.Fields {
			fs := dt.Sorts[j]
			if abstract {
				fs = mapSortU(fs)
			}
			sb.WriteString(" (" + quoteSym(f) + " " + fs + ")")
		}
		sb.WriteString("))))\n")
	}
	for _, name := range p.order {
		sb.WriteString("(declare-const " + quoteSym(name) + " " + p.consts[name] + ")\n")
	}
	var fs []string
	for f := range p.funs {
		fs = append(fs, f)
	}
	sort.Strings(fs)
	for _, f := range fs {
		if defined[f] {
			continue
		}
		sb.WriteString("(declare-fun " + quoteSym(f) + " " + p.funs[f] + ")\n")
	}
	for _, d := range defs {
		sb.WriteString("(define-fun " + quoteSym(d.Name) + " (")
		for _, q := range d.Params {
			sb.WriteString("(" + quoteSym(q.Op) + " " + q.Sort + ")")
		}
		sb.WriteString(") " + d.Sort + " ")
		writeTerm(&sb, d.Body)
		sb.WriteString(")\n")
	}
	for _, a := range asserts {
		sb.WriteString("(assert ")
		writeTerm(&sb, a)
		sb.WriteString(")\n")
	}
	sb.WriteString("(check-sat)\n")
	if len(getValues) > 0 {
		sb.WriteString("(get-value (")
		for i, g := range getValues {
			if i > 0 {
				sb.WriteByte(' ')
			}
			writeTerm(&sb, g)
		}
		sb.WriteString("))\n")
	}
	return sb.String()
}

// leafDef returns (creating if needed) the definition of result i of inlined function `key` with the given body.
func (fg *FnGen) leafDef(key string, params []*Term, body *Term, i int) *FunDef {
	mk := key + "#" + body.Key()
	if d, ok := fg.defMemo[mk]; ok {
		return d
	}
	if fg.defs == nil {
		fg.defs = map[string]*FunDef{}
		fg.defMemo = map[string]*FunDef{}
	}
	fg.fresh++
	name := "def:" + key + "!" + itoa(fg.fresh)
	d := &FunDef{Name: name, Params: params, Body: body, Sort: body.Sort, Order: fg.fresh}
	fg.defs[name] = d
	fg.defMemo[mk] = d
	return d
}

func itoa(n int) string {
	if n == 0 {
		return "0"
	}
	var b []byte
	for n > 0 {
		b = append([]byte{byte('0' + n%10)}, b...)
		n /= 10
	}
	return string(b)
}
