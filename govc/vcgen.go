package main

// VC generation over go/ssa: passive form, loops cut at headers, calls by contract / inlining / abstraction.

import (
	"fmt"
	"go/token"
	"go/types"
	"os"
	"sort"
	"strings"

	"golang.org/x/tools/go/ssa"
)

type InputVar struct {
	Name   string
	GoType string
	Term   *Term
}

type Obligation struct {
	Name    string
	Fn      string
	Kind    string // post, pre, inv-entry, inv-keep, safe, monitor, lemma, vacuity
	Assumes []*Term
	Goal    *Term
	Inputs  []InputVar
	Outputs []InputVar
	Note    string
	Pos     string
	Props   []string
	Src     string // contract clause source, if any
	// ExpectSat: vacuity/cover query – must be satisfiable
	ExpectSat bool
	ct        *Contract
	clause    *Clause
	fg        *FnGen
}

// ---------------------------------------------------------------- state generations

type State struct {
	gen  int
	over map[string]*Term
}

func (s *State) clone() *State {
	n := &State{gen: s.gen, over: make(map[string]*Term, len(s.over))}
	for k, v := range s.over {
		n.over[k] = v
	}
	return n
}

type genPred struct {
	cond *Term
	st   *State
}

type genInfo struct {
	kind   string // init | havoc | partial | merge
	parent *State
	set    map[string]bool // partial: names havocked; nil+all => everything
	all    bool
	preds  []genPred
}

type retSite struct {
	reach   *Term
	results []*Term
	state   *State
	instr   *ssa.Return
	locals  map[string]CVal
}

type Frame struct {
	fn       *ssa.Function
	vals     map[ssa.Value]*Term
	addrs    map[ssa.Value]*Addr
	tuples   map[ssa.Value][]*Term
	depth    int
	reach    map[*ssa.BasicBlock]*Term
	exit     map[*ssa.BasicBlock]*State
	edgeCond map[*ssa.BasicBlock][]*Term // per successor index
	prefix   string
	params   []*Term
	rets     []retSite
	top      bool
	defers   []*ssa.Defer
	loopHdr  map[*ssa.BasicBlock]*loopInfo
	curBlock *ssa.BasicBlock
	ghostPos map[*ssa.Range]string // state var names for string range iterators
	stack    []*ssa.Function       // functions being inlined (recursion guard)
	locals   map[*ssa.BasicBlock]map[string]CVal
	nows     []nowRec // time.Now readings, for the monotone-clock assumption
}

type nowRec struct {
	b *ssa.BasicBlock
	t *Term
}

type loopInfo struct {
	header  *ssa.BasicBlock
	body    map[*ssa.BasicBlock]bool
	ordinal int
	back    []*ssa.BasicBlock
}

type Addr struct {
	Kind  string // field | elem | cell | global | opaque
	Base  *Term  // field: struct ref; elem: slice term; cell: ref
	Var   string // heap variable name
	Sort  string // sort of the stored value
	Idx   *Term  // elem
	GoTyp types.Type
	Bytes bool
}

type FnGen struct {
	g            *Gen
	preCallState *State // state before the call whose "after" monitor rules are being evaluated
	fn           *ssa.Function
	ct           *Contract
	name         string
	assumes      []*Term
	obls         []*Obligation
	gens         []*genInfo
	memo         map[string]*Term
	stateSorts   map[string]string
	counters     map[string]int
	fresh        int
	allocs       []*Term
	notes        map[string]bool
	inputs       []InputVar
	initState    *State
	paramEnv     map[string]CVal
	top          *Frame
	monitors     []*Monitor
	failed       []string
	quantIdx     bool
	// free-variable bindings of a closure about to be inlined
	pendingBindings []*Term
	// noDefs: no definitional constants may be introduced (terms under a quantifier's bound variables)
	noDefs bool
	// SMT function definitions of inlined leaf functions used in contracts
	defs    map[string]*FunDef
	defMemo map[string]*FunDef
	// de-duplication of assumptions
	assumeSeen    map[string]bool
	assumeSeenLen int
	// candidate witnesses for integer existentials (loop indices), see ceval quant
	witnesses []*Term
	// number of heap havocs so far
	havocCount int
	fspec      *frameSpec
	// non-escaping local cells of the function under verification
	stackCells []stackCell
	lateCells  []lateCell      // allocations that escape only at known instructions (flow-sensitive privacy)
	curIns     ssa.Instruction // instruction of the top frame being translated
}

type lateCell struct {
	stackCell
	sites []ssa.Instruction
}

type stackCell struct {
	ref *Term
	ty  types.Type
	src ssa.Value // the Alloc (or closure free variable) the cell belongs to
}

func (fg *FnGen) note(s string) { fg.notes[s] = true }

// refLimit: every reference that exists on entry is <= reflimit; every allocation made by the function is > reflimit.
func (fg *FnGen) refLimit() *Term {
	c := Const("reflimit", SInt)
	if _, ok := fg.memo["reflimit"]; !ok {
		fg.memo["reflimit"] = c
		fg.assume(Ge(c, IntLit(0)))
	}
	return c
}

// assumeOld: a value that exists on entry (parameter, free variable) refers only to pre-existing objects.
func (fg *FnGen) assumeOld(t *Term, ty types.Type) {
	if ty == nil {
		return
	}
	switch ty.Underlying().(type) {
	case *types.Pointer, *types.Map, *types.Chan:
		fg.assume(Le(t, fg.refLimit()))
	case *types.Slice:
		fg.assume(Le(SBase(t), fg.refLimit()))
	case *types.Struct:
		// by-value struct parameter: its pointer / slice fields refer to pre-existing objects too
		stt := ty.Underlying().(*types.Struct)
		srt := fg.g.ti.structSort(ty, stt)
		for i := 0; i < stt.NumFields(); i++ {
			ft := stt.Field(i).Type()
			switch ft.Underlying().(type) {
			case *types.Pointer, *types.Map, *types.Chan, *types.Slice, *types.Struct:
				fg.assumeOld(Sel(fmt.Sprintf("%s.%s", srt, stt.Field(i).Name()), fg.g.ti.sortOf(ft), i, t), ft)
			}
		}
	}
}

func (fg *FnGen) freshName(base string) string {
	fg.fresh++
	return fmt.Sprintf("%s!%d", base, fg.fresh)
}
func (fg *FnGen) freshConst(base, sort string) *Term {
	return Const(fg.freshName(base), sort)
}

func (fg *FnGen) assume(t *Term) {
	if t == nil || t == True {
		return
	}
	noteRefAge(t)
	// identical assumptions (e.g. the post of a pure function applied to the same arguments again) are kept once;
	// the index is rebuilt when the list was truncated by a contract evaluation under a binder
	if fg.assumeSeen == nil || fg.assumeSeenLen > len(fg.assumes) {
		fg.assumeSeen = map[string]bool{}
		for _, a := range fg.assumes {
			fg.assumeSeen[a.Key()] = true
		}
	}
	k := t.Key()
	if fg.assumeSeen[k] {
		return
	}
	fg.assumeSeen[k] = true
	fg.assumes = append(fg.assumes, t)
	fg.assumeSeenLen = len(fg.assumes)
}
func (fg *FnGen) assumeIf(guard, t *Term) { fg.assume(Implies(guard, t)) }

func (fg *FnGen) ordinal(kind string) int {
	n := fg.counters[kind]
	fg.counters[kind] = n + 1
	return n
}

func (fg *FnGen) addObl(kind, label string, guard, goal *Term, pos token.Pos, src string) *Obligation {
	full := Implies(guard, goal)
	if full == True {
		return nil
	}
	o := &Obligation{
		Name: fg.name + "#" + label, Fn: fg.name, Kind: kind,
		Assumes: append([]*Term{}, fg.assumes...), Goal: full, Inputs: fg.inputs, Src: src, ct: fg.ct, fg: fg,
	}
	if pos.IsValid() {
		o.Pos = fg.g.prog.Fset.Position(pos).String()
	}
	if fg.ct != nil {
		o.Props = fg.ct.Props
	}
	fg.obls = append(fg.obls, o)
	return o
}

// safety obligation followed by assumption (assert-then-assume)
func (fg *FnGen) safety(what string, guard, goal *Term, pos token.Pos) {
	if Implies(guard, goal) == True {
		return
	}
	if fg.ct != nil && fg.ct.Options["nosafety"] != "" && !strings.Contains(","+fg.ct.Options["safety"]+",", ","+what+",") {
		// panic-freedom of this function is not part of the claim: run-time checks are assumed to pass
		fg.g.useTrusted("run-time safety conditions (nil, bounds, type assertions) of " + fg.name + " are assumed, not checked (option nosafety)")
		fg.assumeIf(guard, goal)
		return
	}
	k := fg.ordinal("safe:" + what)
	fg.addObl("safe", fmt.Sprintf("safe:%s:%d", what, k), guard, goal, pos, "")
	fg.assumeIf(guard, goal)
}

// ---------------------------------------------------------------- state access

func (fg *FnGen) newGen(gi *genInfo) int {
	fg.gens = append(fg.gens, gi)
	return len(fg.gens) - 1
}

func (fg *FnGen) lookup(st *State, name, sort string) *Term {
	if v, ok := st.over[name]; ok {
		return v
	}
	return fg.lookupGen(st.gen, name, sort)
}

func (fg *FnGen) lookupGen(g int, name, sort string) *Term {
	key := fmt.Sprintf("%d#%s", g, name)
	if v, ok := fg.memo[key]; ok {
		return v
	}
	if old, ok := fg.stateSorts[name]; ok && old != sort {
		panic(fmt.Sprintf("state var %s used with sorts %s and %s", name, old, sort))
	}
	fg.stateSorts[name] = sort
	gi := fg.gens[g]
	var r *Term
	switch gi.kind {
	case "init":
		r = Const(name+"@0", sort)
		if strings.HasPrefix(name, "ghost:") || strings.HasPrefix(name, "defer:") {
			r = fg.ghostInit(name, sort)
		}
	case "havoc":
		r = Const(fmt.Sprintf("%s@h%d", name, g), sort)
	case "partial":
		if gi.all || gi.set[name] {
			if gi.all && (strings.HasPrefix(name, "it:") || strings.HasPrefix(name, "defer:") || strings.HasPrefix(name, "ghost:")) && !gi.set[name] {
				// iterator positions / defer flags are only changed by explicit instructions
				r = fg.lookup(gi.parent, name, sort)
			} else {
				r = Const(fmt.Sprintf("%s@h%d", name, g), sort)
			}
		} else {
			r = fg.lookup(gi.parent, name, sort)
		}
	case "merge":
		var vals []*Term
		allSame := true
		for _, p := range gi.preds {
			v := fg.lookup(p.st, name, sort)
			vals = append(vals, v)
			if !same(v, vals[0]) {
				allSame = false
			}
		}
		if allSame {
			r = vals[0]
		} else {
			c := Const(fmt.Sprintf("%s@m%d", name, g), sort)
			def := vals[len(vals)-1]
			for i := len(vals) - 2; i >= 0; i-- {
				def = Ite(gi.preds[i].cond, vals[i], def)
			}
			if fg.noDefs {
				r = def
			} else {
				fg.assume(Eq(c, def))
				r = c
			}
		}
	}
	fg.memo[key] = r
	return r
}

func (fg *FnGen) ghostInit(name, sort string) *Term {
	if strings.HasPrefix(name, "defer:") {
		return False
	}
	for _, m := range fg.monitors {
		for _, gd := range m.Ghosts {
			if "ghost:"+gd.Name == name && gd.Init != nil {
				env := &Env{fg: fg, vars: map[string]CVal{}}
				v, err := env.eval(gd.Init)
				if err == nil {
					if v.IsNil {
						return nilOfSort(sort)
					}
					return v.T
				}
			}
		}
	}
	if sort == SBool {
		return False
	}
	return Const(name+"@0", sort)
}

func (fg *FnGen) set(st *State, name, sort string, v *Term) {
	if old, ok := fg.stateSorts[name]; ok && old != sort {
		panic(fmt.Sprintf("state var %s used with sorts %s and %s", name, old, sort))
	}
	fg.stateSorts[name] = sort
	st.over[name] = v
}

// havocAll returns a new state where every heap variable is unknown (iterator positions and defer flags are kept).
func (fg *FnGen) havocAll(st *State) *State {
	fg.havocCount++
	g := fg.newGen(&genInfo{kind: "partial", all: true, parent: st, set: map[string]bool{}})
	return &State{gen: g, over: map[string]*Term{}}
}

func (fg *FnGen) havocSet(st *State, names map[string]bool) *State {
	g := fg.newGen(&genInfo{kind: "partial", parent: st, set: names})
	return &State{gen: g, over: map[string]*Term{}}
}

// ---------------------------------------------------------------- heap variable naming

func (fg *FnGen) fieldVar(structT types.Type, st *types.Struct, idx int) (string, string) {
	name := fg.g.ti.structName(structT, st)
	f := st.Field(idx)
	fname := f.Name()
	if fname == "_" {
		fname = fmt.Sprintf("_%d", idx) // blank fields of one struct are distinct locations
	}
	return fg.known("H:"+name+"."+fname, ArraySort(SInt, fg.g.ti.sortOf(f.Type())))
}

// known records the sort of a heap variable as soon as it is named (write-set computations name variables before any
// state lookup does).
func (fg *FnGen) known(name, sort string) (string, string) {
	if _, ok := fg.stateSorts[name]; !ok {
		fg.stateSorts[name] = sort
	}
	return name, sort
}

func (fg *FnGen) cellVar(elem types.Type) (string, string) {
	s := fg.g.ti.sortOf(elem)
	return fg.known("HP:"+sanitize(s), ArraySort(SInt, s))
}

func (fg *FnGen) memVar(elem types.Type) (string, string, bool) {
	if b, ok := elem.Underlying().(*types.Basic); ok && b.Kind() == types.Uint8 {
		fg.known("MemB", ArraySort(SInt, SString))
		return "MemB", ArraySort(SInt, SString), true
	}
	s := fg.g.ti.sortOf(elem)
	n, srt := fg.known("Mem:"+sanitize(s), ArraySort(SInt, ArraySort(SInt, s)))
	return n, srt, false
}

// ---------------------------------------------------------------- loops

func findLoops(fn *ssa.Function) map[*ssa.BasicBlock]*loopInfo {
	loops := map[*ssa.BasicBlock]*loopInfo{}
	for _, b := range fn.Blocks {
		for _, s := range b.Succs {
			if s.Dominates(b) {
				li := loops[s]
				if li == nil {
					li = &loopInfo{header: s, body: map[*ssa.BasicBlock]bool{s: true}}
					loops[s] = li
				}
				li.back = append(li.back, b)
				// natural loop body
				stack := []*ssa.BasicBlock{b}
				for len(stack) > 0 {
					x := stack[len(stack)-1]
					stack = stack[:len(stack)-1]
					if li.body[x] {
						continue
					}
					li.body[x] = true
					stack = append(stack, x.Preds...)
				}
			}
		}
	}
	var hs []*ssa.BasicBlock
	for h := range loops {
		hs = append(hs, h)
	}
	sort.Slice(hs, func(i, j int) bool { return hs[i].Index < hs[j].Index })
	for i, h := range hs {
		loops[h].ordinal = i
	}
	return loops
}

func isBackEdge(from, to *ssa.BasicBlock) bool { return to.Dominates(from) }

func rpo(fn *ssa.Function) []*ssa.BasicBlock {
	seen := map[*ssa.BasicBlock]bool{}
	var post []*ssa.BasicBlock
	var dfs func(b *ssa.BasicBlock)
	dfs = func(b *ssa.BasicBlock) {
		seen[b] = true
		for _, s := range b.Succs {
			if !seen[s] && !isBackEdge(b, s) {
				dfs(s)
			}
		}
		post = append(post, b)
	}
	if len(fn.Blocks) > 0 {
		dfs(fn.Blocks[0])
	}
	for i, j := 0, len(post)-1; i < j; i, j = i+1, j-1 {
		post[i], post[j] = post[j], post[i]
	}
	// ensure topological order w.r.t. forward edges: DFS reverse postorder on the DAG is topological.
	return post
}

// loopWrites computes which state variables a loop body may write; all=true if unknown.
func (fg *FnGen) loopWrites(fr *Frame, li *loopInfo) (map[string]bool, bool) {
	set := map[string]bool{}
	all := false
	for b := range li.body {
		for _, ins := range b.Instrs {
			was := all
			fg.instrWrites(fr.fn, ins, set, &all, 0)
			if all && !was && os.Getenv("GOVC_TRACE") != "" {
				fmt.Fprintf(os.Stderr, "loop %d of %s: unknown effects because of: %v\n", li.ordinal, fr.fn.Name(), ins)
			}
		}
	}
	return set, all
}

// loopLocalOnly: heap variables (cells and struct fields, indexed by reference) that the loop writes only through
// allocations made inside the loop body (the Alloc itself, or a Store whose address is rooted at such an Alloc).
// Such writes cannot touch an object that existed before the loop was entered.
func (fg *FnGen) loopLocalOnly(fr *Frame, li *loopInfo, set map[string]bool) map[string]bool {
	external := map[string]bool{}
	inLoopAlloc := func(v ssa.Value) bool {
		for {
			switch a := v.(type) {
			case *ssa.FieldAddr:
				v = a.X
				continue
			case *ssa.IndexAddr:
				if _, isSlice := a.X.Type().Underlying().(*types.Slice); isSlice {
					return false
				}
				v = a.X
				continue
			case *ssa.Alloc:
				return li.body[a.Block()]
			}
			return false
		}
	}
	for b := range li.body {
		for _, ins := range b.Instrs {
			switch x := ins.(type) {
			case *ssa.Alloc, *ssa.MakeSlice:
				continue
			case *ssa.Store:
				if inLoopAlloc(x.Addr) {
					continue
				}
			case *ssa.Call:
				// append is modelled as writing a freshly allocated backing array only
				if b, ok := x.Call.Value.(*ssa.Builtin); ok && b.Name() == "append" {
					continue
				}
			}
			tmp := map[string]bool{}
			dummy := false
			fg.instrWrites(fr.fn, ins, tmp, &dummy, 0)
			for n := range tmp {
				external[n] = true
			}
		}
	}
	out := map[string]bool{}
	for n := range set {
		if !external[n] && (strings.HasPrefix(n, "HP:") || strings.HasPrefix(n, "H:") || strings.HasPrefix(n, "Mem")) && strings.HasPrefix(fg.stateSorts[n], "(Array Int ") {
			out[n] = true
		}
	}
	return out
}

func (fg *FnGen) instrWrites(fn *ssa.Function, ins ssa.Instruction, set map[string]bool, all *bool, depth int) {
	switch x := ins.(type) {
	case *ssa.Store:
		switch a := x.Addr.(type) {
		case *ssa.FieldAddr:
			if st, nt, ok := isStructPtr(a.X.Type()); ok {
				n, _ := fg.fieldVar(nt, st, a.Field)
				set[n] = true
				// storing a struct value into a struct-typed field writes the nested fields
				if _, ok := st.Field(a.Field).Type().Underlying().(*types.Struct); ok {
					*all = true
				}
			} else {
				*all = true
			}
		case *ssa.IndexAddr:
			if sl, ok := a.X.Type().Underlying().(*types.Slice); ok {
				n, _, _ := fg.memVar(sl.Elem())
				set[n] = true
				if _, ok := sl.Elem().Underlying().(*types.Struct); ok {
					*all = true
				}
			} else if pa, ok := a.X.Type().Underlying().(*types.Pointer); ok {
				if _, isArr := pa.Elem().Underlying().(*types.Array); isArr {
					n, _ := fg.cellVar(pa.Elem())
					set[n] = true
				} else {
					*all = true
				}
			} else {
				*all = true
			}
		case *ssa.Alloc:
			elem := a.Type().Underlying().(*types.Pointer).Elem()
			if st, ok := elem.Underlying().(*types.Struct); ok {
				for i := 0; i < st.NumFields(); i++ {
					n, _ := fg.fieldVar(elem, st, i)
					set[n] = true
				}
			} else {
				n, _ := fg.cellVar(elem)
				set[n] = true
			}
		case *ssa.Global:
			set["G:"+a.String()] = true
		default:
			*all = true
		}
	case *ssa.Alloc:
		elem := x.Type().Underlying().(*types.Pointer).Elem()
		if st, ok := elem.Underlying().(*types.Struct); ok {
			fg.structWrites(elem, st, set)
		} else {
			n, _ := fg.cellVar(elem)
			set[n] = true
		}
	case *ssa.MapUpdate:
		set["MapV"] = true
		*all = true
	case *ssa.MakeSlice:
		if sl, ok := x.Type().Underlying().(*types.Slice); ok {
			n, _, _ := fg.memVar(sl.Elem())
			set[n] = true
		}
	case *ssa.Next:
		if r, ok := x.Iter.(*ssa.Range); ok {
			set[rangeVarName(r)] = true
		}
	case *ssa.Defer:
		set[fmt.Sprintf("defer:%p", x)] = true
	case ssa.CallInstruction:
		fg.callWrites(x, set, all, depth)
	}
}

func (fg *FnGen) structWrites(named types.Type, st *types.Struct, set map[string]bool) {
	for i := 0; i < st.NumFields(); i++ {
		n, _ := fg.fieldVar(named, st, i)
		set[n] = true
		if inner, ok := st.Field(i).Type().Underlying().(*types.Struct); ok {
			fg.structWrites(st.Field(i).Type(), inner, set)
		}
	}
}

func rangeVarName(r *ssa.Range) string {
	return fmt.Sprintf("it:%s.%s", r.Parent().Name(), r.Name())
}

// ---------------------------------------------------------------- running a function body

func (fg *FnGen) newFrame(fn *ssa.Function, depth int, prefix string) *Frame {
	return &Frame{fn: fn, vals: map[ssa.Value]*Term{}, addrs: map[ssa.Value]*Addr{}, tuples: map[ssa.Value][]*Term{},
		depth: depth, reach: map[*ssa.BasicBlock]*Term{}, exit: map[*ssa.BasicBlock]*State{}, edgeCond: map[*ssa.BasicBlock][]*Term{},
		prefix: prefix, ghostPos: map[*ssa.Range]string{}}
}

func (fg *FnGen) edgeReach(fr *Frame, from *ssa.BasicBlock, to *ssa.BasicBlock) *Term {
	var cs []*Term
	for i, s := range from.Succs {
		if s == to {
			ec := True
			if i < len(fr.edgeCond[from]) {
				ec = fr.edgeCond[from][i]
			}
			cs = append(cs, And(fr.reach[from], ec))
		}
	}
	return Or(cs...)
}

func (fg *FnGen) runBlocks(fr *Frame, entry *State, entryReach *Term) {
	fn := fr.fn
	fr.loopHdr = findLoops(fn)
	order := rpo(fn)
	for _, b := range order {
		fr.curBlock = b
		fr.enterBlockLocals(b)
		var st *State
		if b == fn.Blocks[0] {
			fr.reach[b] = entryReach
			st = entry.clone()
		} else {
			var preds []genPred
			var rs []*Term
			seenPred := map[*ssa.BasicBlock]bool{}
			for _, p := range b.Preds {
				if isBackEdge(p, b) || seenPred[p] {
					continue
				}
				seenPred[p] = true
				if _, ok := fr.reach[p]; !ok {
					continue // unreachable predecessor (e.g. recover block)
				}
				er := fg.edgeReach(fr, p, b)
				if er == False {
					continue
				}
				rs = append(rs, er)
				preds = append(preds, genPred{cond: er, st: fr.exit[p]})
			}
			if len(preds) == 0 {
				continue // unreachable
			}
			r := Or(rs...)
			if !fg.noDefs && (len(rs) > 1 || (r.Kind == KApp && len(r.Args) > 1)) {
				c := Const(fmt.Sprintf("%sreach_b%d", fr.prefix, b.Index), SBool)
				fg.assume(Eq(c, r))
				r = c
			}
			fr.reach[b] = r
			if len(preds) == 1 {
				st = preds[0].st.clone()
			} else {
				g := fg.newGen(&genInfo{kind: "merge", preds: preds})
				st = &State{gen: g, over: map[string]*Term{}}
			}
		}
		if li := fr.loopHdr[b]; li != nil {
			st = fg.enterLoop(fr, li, st)
		}
		for _, ins := range b.Instrs {
			if fr.top {
				fg.curIns = ins
			}
			st = fg.step(fr, b, ins, st)
			if st == nil {
				break
			}
		}
		if st != nil {
			fr.exit[b] = st
			// back edges out of this block: invariant preservation
			for _, s := range b.Succs {
				if isBackEdge(b, s) {
					if li := fr.loopHdr[s]; li != nil {
						fg.checkInvariants(fr, li, b, st, "keep")
					}
				}
			}
		}
	}
}

// enterLoop: assert invariants on entry edges, havoc, assume invariants.
func (fg *FnGen) enterLoop(fr *Frame, li *loopInfo, st *State) *State {
	h := li.header
	if !fr.top {
		panic("loop in inlined frame")
	}
	// entry obligations (phis take the value flowing on each entry edge)
	for _, p := range h.Preds {
		if isBackEdge(p, h) {
			continue
		}
		if _, ok := fr.reach[p]; !ok {
			continue
		}
		fg.checkInvariants(fr, li, p, fr.exit[p], "entry")
	}
	set, all := fg.loopWrites(fr, li)
	var hst *State
	if all {
		g := fg.newGen(&genInfo{kind: "partial", all: true, parent: st, set: set})
		hst = &State{gen: g, over: map[string]*Term{}}
		fg.preserveAcrossHavoc(st, hst, fr.reach[h], li)
	} else {
		hst = fg.havocSet(st, set)
		// writes rooted at allocations made inside the loop leave every object that existed at loop entry unchanged
		preClock := fg.currentClock()
		var lnames []string
		for n := range fg.loopLocalOnly(fr, li, set) {
			lnames = append(lnames, n)
		}
		sort.Strings(lnames)
		for _, n := range lnames {
			srt := fg.stateSorts[n]
			r := Bound(fg.freshName("lr"), SInt)
			fg.assume(Forall([]*Term{r}, Implies(Le(r, preClock), Eq(Select(fg.lookup(hst, n, srt), r), Select(fg.lookup(st, n, srt), r)))))
			// ready-made instances for the objects the parameters refer to (saves the solvers an instantiation step)
			for _, p := range fr.fn.Params {
				pv, ok := fr.vals[p]
				if !ok {
					continue
				}
				switch p.Type().Underlying().(type) {
				case *types.Slice:
					if strings.HasPrefix(n, "Mem") {
						fg.assume(Eq(Select(fg.lookup(hst, n, srt), SBase(pv)), Select(fg.lookup(st, n, srt), SBase(pv))))
					}
				case *types.Pointer:
					if !strings.HasPrefix(n, "Mem") {
						fg.assume(Eq(Select(fg.lookup(hst, n, srt), pv), Select(fg.lookup(st, n, srt), pv)))
					}
				}
			}
		}
	}
	// phis become fresh constants (done in step for *ssa.Phi at a header); evaluate them first so invariants can refer to them
	for _, ins := range h.Instrs {
		if phi, ok := ins.(*ssa.Phi); ok {
			fg.headerPhi(fr, phi)
		} else {
			break
		}
	}
	// everything the loop-carried variables refer to was allocated before the current iteration's own allocations
	fg.bumpClockForPhis(fr, h)
	// assume invariants at the header
	if fg.ct != nil {
		env := fg.loopEnv(fr, li, nil, hst)
		for _, c := range fg.ct.Invariants[li.ordinal] {
			v, err := env.evalBool(c.Expr)
			if err != nil {
				fg.bindFailure(fmt.Sprintf("inv:loop%d:%s", li.ordinal, c.Label), err, h.Instrs[0].Pos())
				continue
			}
			fg.assumeIf(fr.reach[h], v)
		}
	}
	// built-in range facts
	fg.rangeFacts(fr, li, hst)
	// the function's frame condition, carried as an invariant for the heap variables the loop writes
	fg.assumeLoopFrame(fr, li, hst)
	return hst
}

func (fg *FnGen) bindFailure(label string, err error, pos token.Pos) {
	o := fg.addObl("bind", label+":bind", True, False, pos, "")
	if o != nil {
		o.Note = "contract does not bind: " + err.Error()
	}
}

func (fg *FnGen) headerPhi(fr *Frame, phi *ssa.Phi) {
	if _, ok := fr.vals[phi]; ok {
		return
	}
	name := phi.Comment
	if name == "" {
		name = phi.Name()
	}
	c := Const(fmt.Sprintf("%s%s@%s", fr.prefix, name, phi.Name()), fg.g.ti.sortOf(phi.Type()))
	fr.vals[phi] = c
	fg.assumeValid(c, phi.Type(), True)
}

// rangeFacts: automatically known facts for range loops (0 <= idx <= len etc.)
func (fg *FnGen) rangeFacts(fr *Frame, li *loopInfo, st *State) {
	h := li.header
	for _, ins := range h.Instrs {
		if nx, ok := ins.(*ssa.Next); ok && nx.IsString {
			if r, ok := nx.Iter.(*ssa.Range); ok {
				pos := fg.lookup(st, rangeVarName(r), SInt)
				s := fg.val(fr, r.X)
				fg.assumeIf(fr.reach[h], And(Ge(pos, IntLit(0)), Le(pos, StrLen(s))))
			}
		}
		if phi, ok := ins.(*ssa.Phi); ok && phi.Comment == "rangeindex" {
			// t = phi [-1, t+1]; the loop tests t+1 < len
			fg.assumeIf(fr.reach[h], Ge(fr.vals[phi], IntLit(-1)))
		}
	}
}

// loopEnv builds the contract environment for invariants of loop li; if from != nil, phis take the values flowing
// along the edge from -> header.
func (fg *FnGen) loopEnv(fr *Frame, li *loopInfo, from *ssa.BasicBlock, st *State) *Env {
	env := fg.baseEnv(fr, st)
	h := li.header
	// source-level locals that are not loop-carried keep the value they have at the edge / at the header
	lb := h
	if from != nil {
		lb = from
	}
	if d := h.Idom(); from == nil && d != nil {
		lb = d
	}
	if fr.locals != nil {
		for ln, lv := range fr.locals[lb] {
			if _, taken := env.vars[ln]; !taken {
				env.vars[ln] = lv
			}
		}
	}
	for _, ins := range h.Instrs {
		phi, ok := ins.(*ssa.Phi)
		if !ok {
			continue
		}
		var v *Term
		if from == nil {
			v = fr.vals[phi]
		} else {
			for i, p := range h.Preds {
				if p == from {
					v = fg.val(fr, phi.Edges[i])
					break
				}
			}
		}
		if v == nil {
			continue
		}
		name := phi.Comment
		if name == "rangeindex" {
			name = "$idx"
		}
		if name != "" {
			env.vars[name] = CVal{T: v, Ty: phi.Type()}
		}
		env.vars[phi.Name()] = CVal{T: v, Ty: phi.Type()}
	}
	// string range iterators inside this loop: $pos
	for b := range li.body {
		for _, ins := range b.Instrs {
			if nx, ok := ins.(*ssa.Next); ok {
				if r, ok := nx.Iter.(*ssa.Range); ok && nx.IsString {
					env.vars["$pos"] = CVal{T: fg.lookup(st, rangeVarName(r), SInt), Ty: types.Typ[types.Int]}
				}
				// map range iterators inside this loop: $seen[k] — key k has been yielded by this iteration
				if r, ok := nx.Iter.(*ssa.Range); ok && !nx.IsString {
					if mt, ok := r.X.Type().Underlying().(*types.Map); ok {
						srt := ArraySort(fg.g.ti.sortOf(mt.Key()), SBool)
						env.vars["$seen"] = CVal{T: fg.lookup(st, rangeVarName(r), srt)}
					}
				}
			}
		}
	}
	return env
}

func (fg *FnGen) checkInvariants(fr *Frame, li *loopInfo, from *ssa.BasicBlock, st *State, which string) {
	if fg.ct == nil {
		return
	}
	guard := fg.edgeReach(fr, from, li.header)
	env := fg.loopEnv(fr, li, from, st)
	if which == "keep" {
		// goal position: offer the loop indices reached so far as witnesses for integer existentials
		fg.collectWitnesses()
		defer func() { fg.witnesses = nil }()
	}
	for _, c := range fg.ct.Invariants[li.ordinal] {
		v, err := env.evalBool(c.Expr)
		label := fmt.Sprintf("inv:loop%d:%s:%s", li.ordinal, which, c.Label)
		if which == "keep" && len(li.back) > 1 {
			label += fmt.Sprintf("@b%d", from.Index)
		}
		if err != nil {
			fg.bindFailure(label, err, li.header.Instrs[0].Pos())
			continue
		}
		o := fg.addObl("inv-"+which, label, guard, v, li.header.Instrs[0].Pos(), c.Src)
		if o != nil {
			o.clause = c
		}
	}
	fg.checkLoopFrame(fr, li, from, st, which, guard)
}

// ---------------------------------------------------------------- values

func (fg *FnGen) val(fr *Frame, v ssa.Value) *Term {
	if t, ok := fr.vals[v]; ok {
		return t
	}
	switch x := v.(type) {
	case *ssa.Const:
		return fg.constTerm(x)
	case *ssa.Global:
		t := Const("gaddr:"+x.String(), SInt)
		fr.vals[v] = t
		return t
	case *ssa.Function:
		t := Const("fn:"+x.String(), SInt)
		return t
	case *ssa.Builtin:
		return Const("builtin:"+x.Name(), SInt)
	case *ssa.FreeVar:
		t := Const(fr.prefix+"fv_"+x.Name(), fg.g.ti.sortOf(x.Type()))
		fr.vals[v] = t
		fg.assumeValid(t, x.Type(), True)
		fg.assumeOld(t, x.Type())
		return t
	}
	// value not yet defined (e.g. defined in a block skipped as unreachable): havoc
	t := fg.freshConst(fr.prefix+"undef_"+v.Name(), fg.g.ti.sortOf(v.Type()))
	fr.vals[v] = t
	return t
}

func (fg *FnGen) constTerm(c *ssa.Const) *Term {
	t := c.Type()
	if c.Value == nil {
		return fg.g.ti.zeroOf(t)
	}
	switch u := t.Underlying().(type) {
	case *types.Basic:
		switch {
		case u.Info()&types.IsBoolean != 0:
			return BoolLit(c.Value.String() == "true")
		case u.Info()&types.IsString != 0:
			return StrLit(constantString(c))
		case u.Info()&types.IsInteger != 0:
			return BigIntLit(c.Value.ExactString())
		}
	}
	return Const("const_"+sanitize(c.Value.ExactString()), fg.g.ti.sortOf(t))
}

// assumeValid adds the representation invariants every Go value of type ty satisfies.
func (fg *FnGen) assumeValid(t *Term, ty types.Type, guard *Term) {
	switch ty.Underlying().(type) {
	case *types.Basic:
		if lo, hi, ok := intRange(ty); ok && t.Kind != KIntLit {
			fg.assumeIf(guard, And(Ge(t, BigIntLit(lo)), Le(t, BigIntLit(hi))))
		}
		if t.Sort == SString && t.Kind == KConst {
			// a Go string's length fits in an int
			fg.assumeIf(guard, Le(StrLen(t), BigIntLit("9223372036854775807")))
		}
	case *types.Slice:
		fg.assumeIf(guard, And(Ge(SLen(t), IntLit(0)), Ge(SCap(t), SLen(t)), Ge(SOff(t), IntLit(0)), Ge(SBase(t), IntLit(0)), Le(SCap(t), BigIntLit("9223372036854775807")),
			Implies(Eq(SBase(t), IntLit(0)), And(Eq(SCap(t), IntLit(0)), Eq(SOff(t), IntLit(0))))))
		if isByteSlice(ty) {
			// backing store is at least off+cap long
			fg.note("byte-slice backing store length >= off+cap is asserted lazily at accesses")
		}
	case *types.Interface:
		fg.assumeIf(guard, And(Ge(ITag(t), IntLit(0)), Implies(Eq(ITag(t), IntLit(0)), Eq(IVal(t), IntLit(0)))))
	case *types.Pointer, *types.Map, *types.Chan, *types.Signature:
		fg.assumeIf(guard, Ge(t, IntLit(0)))
	}
}
