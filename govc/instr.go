package main

import (
	"fmt"
	"go/constant"
	"go/token"
	"go/types"
	"math/big"
	"strings"

	"golang.org/x/tools/go/ssa"
)

func constantString(c *ssa.Const) string { return constant.StringVal(c.Value) }

// step symbolically executes one instruction; returns the new state or nil if the block ends without successors.
func (fg *FnGen) step(fr *Frame, b *ssa.BasicBlock, ins ssa.Instruction, st *State) *State {
	reach := fr.reach[b]
	ti := fg.g.ti
	switch x := ins.(type) {
	case *ssa.DebugRef:
		// source-level names of locals (GlobalDebug): usable in postconditions of the top frame
		if fr.top && x.Object() != nil {
			if _, isVar := x.Object().(*types.Var); isVar {
				if x.IsAddr {
					// the variable lives in a heap cell (captured by a closure / address taken): remember the address
					fr.noteLocal(b, "&"+x.Object().Name(), fg.val(fr, x.X), x.X.Type())
				} else {
					fr.noteLocal(b, x.Object().Name(), fg.val(fr, x.X), x.X.Type())
				}
			}
		}
		return st
	case *ssa.Phi:
		if fr.loopHdr[b] != nil {
			fg.headerPhi(fr, x)
			if fr.top && x.Comment != "" {
				fr.noteLocal(b, x.Comment, fr.vals[x], x.Type())
			}
			return st
		}
		var def *Term
		first := true
		for i := len(x.Edges) - 1; i >= 0; i-- {
			p := b.Preds[i]
			if _, ok := fr.reach[p]; !ok {
				continue
			}
			v := fg.val(fr, x.Edges[i])
			if first {
				def = v
				first = false
			} else {
				def = Ite(fg.edgeReach(fr, p, b), v, def)
			}
		}
		if def == nil {
			def = ti.zeroOf(x.Type())
		}
		if def.Kind == KApp && def.Op == "ite" && !fg.noDefs {
			c := Const(fmt.Sprintf("%s%s", fr.prefix, x.Name()), ti.sortOf(x.Type()))
			fg.assume(Eq(c, def))
			def = c
		}
		fr.vals[x] = def
		if fr.top && x.Comment != "" {
			fr.noteLocal(b, x.Comment, def, x.Type())
		}
		return st
	case *ssa.Alloc:
		ref := fg.freshConst(fr.prefix+"alloc_"+x.Name(), SInt)
		fg.assume(Gt(ref, fg.refLimit()))
		for _, a := range fg.allocs {
			fg.assume(Gt(ref, a))
		}
		fg.allocs = []*Term{ref}
		fr.vals[x] = ref
		elem := x.Type().Underlying().(*types.Pointer).Elem()
		fg.freshSubObjects(ref, elem, 0)
		if (!x.Heap || capturedReadOnly(x) || nonEscaping(x)) && fr.top && !fg.noDefs {
			fg.stackCells = append(fg.stackCells, stackCell{ref: ref, ty: elem, src: x})
		} else if fr.top && !fg.noDefs {
			if sites, ok := escapeSites(x); ok {
				fg.lateCells = append(fg.lateCells, lateCell{stackCell{ref: ref, ty: elem, src: x}, sites})
			}
		}
		fg.storeValue(st, ref, elem, ti.zeroOf(elem))
		if arr, ok := elem.Underlying().(*types.Array); ok && ti.sortOf(elem) == SString {
			// a byte array is modelled as a string of exactly its length (zero-filled; the content is left open): the
			// empty string would make every later "len == N" fact contradictory and the path vacuously unreachable
			z := fg.freshConst(fr.prefix+"zeros_"+x.Name(), SString)
			fg.assume(Eq(StrLen(z), IntLit(arr.Len())))
			fg.storeValue(st, ref, elem, z)
		}
		if fr.top && x.Comment != "" && !strings.ContainsAny(x.Comment, " .[]()") {
			switch x.Comment {
			case "slicelit", "varargs", "complit", "makeslice", "new", "arrayliteral", "rangelit":
			default:
				// the cell of a captured / address-taken local variable (go/ssa records the variable's name on the Alloc)
				fr.noteLocal(b, "&"+x.Comment, ref, x.Type())
			}
		}
		if stt, ok := elem.Underlying().(*types.Struct); ok && ti.structName(elem, stt) == "strings.Builder" {
			fg.set(st, sbVar, sbSort, Store(fg.lookup(st, sbVar, sbSort), ref, StrLit("")))
		}
		return st
	case *ssa.BinOp:
		fr.vals[x] = fg.binop(fr, x, reach)
		return st
	case *ssa.UnOp:
		return fg.unop(fr, x, st, reach)
	case *ssa.ChangeInterface:
		fr.vals[x] = fg.val(fr, x.X)
		return st
	case *ssa.ChangeType:
		v := fg.val(fr, x.X)
		if v.Sort != ti.sortOf(x.Type()) {
			v = fg.freshConst(fr.prefix+x.Name(), ti.sortOf(x.Type()))
			fg.note("ChangeType between different sorts havocked in " + fr.fn.Name())
		}
		fr.vals[x] = v
		if a, ok := fr.addrs[x.X]; ok {
			fr.addrs[x] = a
		}
		return st
	case *ssa.Convert:
		fr.vals[x] = fg.convert(fr, x, st, reach)
		return st
	case *ssa.MultiConvert:
		fr.vals[x] = fg.freshConst(fr.prefix+x.Name(), ti.sortOf(x.Type()))
		return st
	case *ssa.MakeInterface:
		fr.vals[x] = fg.makeIface(fg.val(fr, x.X), x.X.Type())
		return st
	case *ssa.Extract:
		if tup, ok := fr.tuples[x.Tuple]; ok && x.Index < len(tup) {
			fr.vals[x] = tup[x.Index]
		} else {
			c := fg.freshConst(fr.prefix+x.Name(), ti.sortOf(x.Type()))
			fg.assumeValid(c, x.Type(), True)
			fr.vals[x] = c
		}
		return st
	case *ssa.Field:
		sv := fg.val(fr, x.X)
		stt := x.X.Type().Underlying().(*types.Struct)
		srt := ti.structSort(x.X.Type(), stt)
		fr.vals[x] = Sel(fmt.Sprintf("%s.%s", srt, stt.Field(x.Field).Name()), ti.sortOf(stt.Field(x.Field).Type()), x.Field, sv)
		return st
	case *ssa.FieldAddr:
		base := fg.val(fr, x.X)
		stt, nt, ok := isStructPtr(x.X.Type())
		fg.safety("nil", reach, Neq(base, IntLit(0)), x.Pos())
		if !ok {
			fr.vals[x] = fg.freshConst(fr.prefix+x.Name(), SInt)
			return st
		}
		name, srt := fg.fieldVar(nt, stt, x.Field)
		ft := stt.Field(x.Field).Type()
		fr.addrs[x] = &Addr{Kind: "field", Base: base, Var: name, Sort: elemSort(srt), GoTyp: ft}
		// pointer value: for embedded structs the sub-object reference, else an opaque address
		fr.vals[x] = fg.subRef(name, base)
		if !fg.noDefs {
			fg.assumeIf(reach, Gt(fr.vals[x], IntLit(0)))
		}
		return st
	case *ssa.IndexAddr:
		idx := fg.val(fr, x.Index)
		switch u := x.X.Type().Underlying().(type) {
		case *types.Slice:
			s := fg.val(fr, x.X)
			fg.safety("index", reach, And(Ge(idx, IntLit(0)), Lt(idx, SLen(s))), x.Pos())
			name, srt, isB := fg.memVar(u.Elem())
			fr.addrs[x] = &Addr{Kind: "elem", Base: s, Var: name, Sort: srt, Idx: idx, GoTyp: u.Elem(), Bytes: isB}
			fr.vals[x] = App("elemaddr", SInt, SBase(s), Add(SOff(s), idx))
		default:
			// pointer to array
			if p, ok := u.(*types.Pointer); ok {
				if arr, ok := p.Elem().Underlying().(*types.Array); ok {
					fg.safety("index", reach, And(Ge(idx, IntLit(0)), Lt(idx, IntLit(arr.Len()))), x.Pos())
					base := fg.val(fr, x.X)
					fg.safety("nil", reach, Neq(base, IntLit(0)), x.Pos())
					name, srt := fg.cellVar(p.Elem())
					fr.addrs[x] = &Addr{Kind: "arrelem", Base: base, Var: name, Sort: elemSort(srt), Idx: idx, GoTyp: arr.Elem()}
				}
			}
			fr.vals[x] = fg.freshConst(fr.prefix+x.Name(), SInt)
		}
		return st
	case *ssa.Index:
		idx := fg.val(fr, x.Index)
		xv := fg.val(fr, x.X)
		switch u := x.X.Type().Underlying().(type) {
		case *types.Array:
			fg.safety("index", reach, And(Ge(idx, IntLit(0)), Lt(idx, IntLit(u.Len()))), x.Pos())
			if xv.Sort == SString {
				fr.vals[x] = fg.byteAt(xv, idx, reach)
			} else {
				fr.vals[x] = Select(xv, idx)
			}
		case *types.Basic: // string
			fg.safety("index", reach, And(Ge(idx, IntLit(0)), Lt(idx, StrLen(xv))), x.Pos())
			fr.vals[x] = fg.byteAt(xv, idx, reach)
		default:
			fr.vals[x] = fg.freshConst(fr.prefix+x.Name(), ti.sortOf(x.Type()))
		}
		return st
	case *ssa.Lookup:
		xv := fg.val(fr, x.X)
		idx := fg.val(fr, x.Index)
		if _, ok := x.X.Type().Underlying().(*types.Map); ok {
			return fg.mapLookup(fr, x, xv, idx, st, reach)
		}
		fg.safety("index", reach, And(Ge(idx, IntLit(0)), Lt(idx, StrLen(xv))), x.Pos())
		fr.vals[x] = fg.byteAt(xv, idx, reach)
		return st
	case *ssa.MakeSlice:
		ln := fg.val(fr, x.Len)
		cp := fg.val(fr, x.Cap)
		fg.safety("makeslice", reach, And(Ge(ln, IntLit(0)), Ge(cp, ln)), x.Pos())
		base := fg.freshConst(fr.prefix+"mk_"+x.Name(), SInt)
		fg.assume(Gt(base, fg.refLimit()))
		for _, a := range fg.allocs {
			fg.assume(Gt(base, a))
		}
		fg.allocs = []*Term{base}
		sl := x.Type().Underlying().(*types.Slice)
		name, srt, isB := fg.memVar(sl.Elem())
		mem := fg.lookup(st, name, srt)
		if isB {
			z := fg.freshConst(fr.prefix+"zeros_"+x.Name(), SString)
			fg.assumeIf(reach, Eq(StrLen(z), cp))
			fg.set(st, name, srt, Store(mem, base, z))
		} else {
			z := fg.freshConst(fr.prefix+"zeros_"+x.Name(), elemSort(srt))
			fg.set(st, name, srt, Store(mem, base, z))
			// zero-initialised elements
			iv := Bound("zi!"+x.Name(), SInt)
			fg.assume(Forall([]*Term{iv}, Eq(Select(z, iv), ti.zeroOf(sl.Elem()))))
		}
		fr.vals[x] = MkSlice(base, IntLit(0), ln, cp)
		return st
	case *ssa.Slice:
		return fg.sliceOp(fr, x, st, reach)
	case *ssa.MakeMap:
		ref := fg.freshConst(fr.prefix+"map_"+x.Name(), SInt)
		fg.assume(Gt(ref, fg.refLimit()))
		for _, a := range fg.allocs {
			fg.assume(Gt(ref, a))
		}
		fg.allocs = []*Term{ref}
		fr.vals[x] = ref
		fg.mapInit(x.Type(), ref, st)
		return st
	case *ssa.MapUpdate:
		return fg.mapUpdate(fr, x, st, reach)
	case *ssa.MakeClosure:
		c := fg.freshConst(fr.prefix+"closure_"+x.Name(), SInt)
		fg.assume(Gt(c, IntLit(0)))
		fr.vals[x] = c
		// identity of the closure: which function literal it is and what it captured (closureOf / closureBinds in contracts)
		if cf, ok := x.Fn.(*ssa.Function); ok && !fg.noDefs {
			fg.assume(Eq(App("closureFn", SString, c), StrLit(shortDesc(cf.String()))))
			for i, b := range x.Bindings {
				v := fg.val(fr, b)
				fg.assume(Eq(App(fmt.Sprintf("closureBind%d_%s", i, sanitize(v.Sort)), v.Sort, c), v))
			}
		}
		return st
	case *ssa.MakeChan:
		c := fg.freshConst(fr.prefix+"chan_"+x.Name(), SInt)
		fg.assume(Gt(c, IntLit(0)))
		fr.vals[x] = c
		return st
	case *ssa.Send:
		fg.note("channel send abstracted (no-op) in " + fr.fn.Name())
		return fg.monitorSend(fr, x, st, reach)
	case *ssa.Select:
		fg.note("select abstracted (nondeterministic choice, arbitrary received values) in " + fr.fn.Name())
		var tup []*Term
		tt := x.Type().(*types.Tuple)
		for i := 0; i < tt.Len(); i++ {
			c := fg.freshConst(fmt.Sprintf("%s%s_%d", fr.prefix, x.Name(), i), ti.sortOf(tt.At(i).Type()))
			fg.assumeValid(c, tt.At(i).Type(), True)
			tup = append(tup, c)
		}
		// index in range
		n := len(x.States)
		lo := IntLit(0)
		if !x.Blocking {
			lo = IntLit(-1)
		}
		fg.assume(And(Ge(tup[0], lo), Lt(tup[0], IntLit(int64(n)))))
		fr.tuples[x] = tup
		return st
	case *ssa.Go:
		fg.note("goroutine spawn dropped at its spawn site in " + fr.fn.Name())
		// the spawned function may run concurrently and write shared state: havoc heap (what no callee can reach or
		// change — non-escaping cells, cells only read by closures, `option stable` messages — is kept as for a call)
		return fg.havocCall(st, reach)
	case *ssa.Defer:
		fr.defers = append(fr.defers, x)
		fg.set(st, fmt.Sprintf("defer:%p", x), SBool, True)
		if fr.top && len(fg.monitors) > 0 {
			// monitors can watch the registration of a deferred call: after call defer:concurrency.RecoverFromPanic args p : ...
			d := fg.describeCall(x.Common())
			d.full, d.short = "defer:"+d.short, "defer:"+d.short
			var args []*Term
			var argTypes []types.Type
			if x.Common().IsInvoke() {
				args = append(args, fg.val(fr, x.Common().Value))
				argTypes = append(argTypes, x.Common().Value.Type())
			}
			for _, a := range x.Common().Args {
				args = append(args, fg.val(fr, a))
				argTypes = append(argTypes, a.Type())
			}
			fg.monitorBefore(fr, d, args, argTypes, st, reach, x.Pos())
			d.sig = types.NewSignatureType(nil, nil, nil, nil, nil, false)
			st = fg.monitorAfter(fr, d, args, nil, argTypes, st, reach)
		}
		return st
	case *ssa.RunDefers:
		for i := len(fr.defers) - 1; i >= 0; i-- {
			d := fr.defers[i]
			flag := fg.lookup(st, fmt.Sprintf("defer:%p", d), SBool)
			if flag == False {
				continue
			}
			st = fg.deferredCall(fr, d, st, And(reach, flag))
		}
		return st
	case *ssa.Range:
		if _, ok := x.X.Type().Underlying().(*types.Basic); ok {
			fg.set(st, rangeVarName(x), SInt, IntLit(0))
		}
		if mt, ok := x.X.Type().Underlying().(*types.Map); ok {
			// the set of keys this iteration has yielded so far: a map range yields every key at most once
			ks := ti.sortOf(mt.Key())
			fg.set(st, rangeVarName(x), ArraySort(ks, SBool), &Term{Op: "as-const", Kind: KApp, Sort: ArraySort(ks, SBool), Args: []*Term{False}})
		}
		fr.vals[x] = Const(fr.prefix+"range_"+x.Name(), SInt)
		return st
	case *ssa.Next:
		return fg.next(fr, x, st, reach)
	case *ssa.TypeAssert:
		return fg.typeAssert(fr, x, st, reach)
	case *ssa.Store:
		v := fg.val(fr, x.Val)
		return fg.store(fr, x.Addr, v, x.Val.Type(), st, reach, x.Pos())
	case *ssa.Call:
		return fg.call(fr, x, st, reach)
	case *ssa.If:
		c := fg.val(fr, x.Cond)
		fr.edgeCond[b] = []*Term{c, Not(c)}
		return st
	case *ssa.Jump:
		fr.edgeCond[b] = []*Term{True}
		return st
	case *ssa.Return:
		var res []*Term
		for _, r := range x.Results {
			res = append(res, fg.val(fr, r))
		}
		fr.rets = append(fr.rets, retSite{reach: reach, results: res, state: st, instr: x, locals: fr.localsAt(b)})
		return nil
	case *ssa.Panic:
		if fr.top && fg.ct != nil && fg.ct.Options["may_panic"] != "" {
			return nil
		}
		k := fg.ordinal("safe:panic")
		fg.addObl("safe", fmt.Sprintf("safe:panic:%d", k), reach, False, x.Pos(), "")
		return nil
	case *ssa.SliceToArrayPointer:
		fr.vals[x] = fg.freshConst(fr.prefix+x.Name(), SInt)
		return st
	}
	panic(fmt.Sprintf("unsupported instruction %T in %s", ins, fr.fn))
}

func (fg *FnGen) byteAt(s, idx, reach *Term) *Term {
	c := StrCode(s, idx)
	if c.Kind != KIntLit {
		fg.assumeIf(And(reach, Ge(idx, IntLit(0)), Lt(idx, StrLen(s))), And(Ge(c, IntLit(0)), Le(c, IntLit(255))))
	}
	return c
}

func (fg *FnGen) makeIface(v *Term, ty types.Type) *Term {
	ti := fg.g.ti
	if _, ok := ty.Underlying().(*types.Interface); ok {
		return v
	}
	tag := IntLit(int64(ti.typeID(ty)))
	switch ty.Underlying().(type) {
	case *types.Pointer, *types.Map, *types.Chan, *types.Signature:
		// a nil pointer in an interface is a non-nil interface
		return MkIface(tag, v)
	}
	srt := ti.sortOf(ty)
	id := App("boxid_"+sanitize(srt), SInt, v)
	fg.assume(Eq(App("unbox_"+sanitize(srt), srt, id), v))
	fg.assume(Gt(id, IntLit(0)))
	return MkIface(tag, id)
}

func (fg *FnGen) binop(fr *Frame, x *ssa.BinOp, reach *Term) *Term {
	a, b := fg.val(fr, x.X), fg.val(fr, x.Y)
	ti := fg.g.ti
	xt := x.X.Type().Underlying()
	isStr := false
	isInt := false
	isUnsigned := false
	if bt, ok := xt.(*types.Basic); ok {
		isStr = bt.Info()&types.IsString != 0
		isInt = bt.Info()&types.IsInteger != 0
		isUnsigned = bt.Info()&types.IsUnsigned != 0
	}
	switch x.Op {
	case token.EQL, token.NEQ:
		var e *Term
		if a.Sort != b.Sort {
			// comparison of interface with concrete: ssa inserts MakeInterface, so should not happen
			e = fg.freshConst(fr.prefix+x.Name(), SBool)
		} else {
			e = Eq(a, b)
		}
		if x.Op == token.NEQ {
			return Not(e)
		}
		return e
	case token.LSS, token.LEQ, token.GTR, token.GEQ:
		if isStr {
			switch x.Op {
			case token.LSS:
				return StrLtT(a, b)
			case token.LEQ:
				return StrLeT(a, b)
			case token.GTR:
				return StrLtT(b, a)
			default:
				return StrLeT(b, a)
			}
		}
		if isInt {
			switch x.Op {
			case token.LSS:
				return Lt(a, b)
			case token.LEQ:
				return Le(a, b)
			case token.GTR:
				return Gt(a, b)
			default:
				return Ge(a, b)
			}
		}
		return fg.freshConst(fr.prefix+x.Name(), SBool)
	case token.ADD:
		if isStr {
			return StrCat(a, b)
		}
		if isInt {
			return fg.wrap(Add(a, b), x.Type(), fr, x)
		}
	case token.SUB:
		if isInt {
			return fg.wrap(Sub(a, b), x.Type(), fr, x)
		}
	case token.MUL:
		if isInt {
			return fg.wrap(Mul(a, b), x.Type(), fr, x)
		}
	case token.QUO:
		if isInt {
			fg.safety("div", reach, Neq(b, IntLit(0)), x.Pos())
			if isUnsigned {
				return App("div", SInt, a, b)
			}
			// Go truncates toward zero
			q := App("div", SInt, App("abs", SInt, a), App("abs", SInt, b))
			return Ite(Eq(Lt(a, IntLit(0)), Lt(b, IntLit(0))), q, Neg(q))
		}
	case token.REM:
		if isInt {
			fg.safety("div", reach, Neq(b, IntLit(0)), x.Pos())
			if isUnsigned {
				return App("mod", SInt, a, b)
			}
			m := App("mod", SInt, App("abs", SInt, a), App("abs", SInt, b))
			return Ite(Lt(a, IntLit(0)), Neg(m), m)
		}
	case token.AND:
		if isInt && isUnsigned || isInt {
			// x & (2^k - 1) == x mod 2^k for non-negative x
			if b.isSmallInt() && b.Int >= 0 && (b.Int&(b.Int+1)) == 0 && isUnsigned {
				return App("mod", SInt, a, IntLit(b.Int+1))
			}
			r := App("go_bvand", SInt, a, b)
			fg.note("bitwise operators are uninterpreted functions (except masks by 2^k-1 on unsigned values)")
			return r
		}
	case token.OR, token.XOR, token.SHL, token.SHR, token.AND_NOT:
		if isInt {
			if x.Op == token.SHL && b.isSmallInt() && b.Int >= 0 && b.Int < 62 && isUnsigned {
				return fg.wrap(Mul(a, IntLit(1<<uint(b.Int))), x.Type(), fr, x)
			}
			if x.Op == token.SHR && b.isSmallInt() && b.Int >= 0 && b.Int < 62 && isUnsigned {
				return App("div", SInt, a, IntLit(1<<uint(b.Int)))
			}
			fg.note("bitwise operators are uninterpreted functions (except masks by 2^k-1 on unsigned values)")
			r := App("go_bv"+strings.ToLower(x.Op.String()), SInt, a, b)
			switch x.Op {
			case token.OR:
				ro := App("go_bvor", SInt, a, b)
				// facts of bitwise or that flag accumulation (x |= bit) needs: on {0,1} it is logical or; 0 is neutral
				bit := func(t *Term) *Term { return Or(Eq(t, IntLit(0)), Eq(t, IntLit(1))) }
				fg.assume(Implies(And(bit(a), bit(b)), Eq(ro, Ite(Or(Eq(a, IntLit(1)), Eq(b, IntLit(1))), IntLit(1), IntLit(0)))))
				fg.assume(Implies(Eq(a, IntLit(0)), Eq(ro, b)))
				fg.assume(Implies(Eq(b, IntLit(0)), Eq(ro, a)))
				return ro
			case token.XOR:
				return App("go_bvxor", SInt, a, b)
			case token.SHL:
				return App("go_bvshl", SInt, a, b)
			case token.SHR:
				return App("go_bvshr", SInt, a, b)
			}
			_ = r
			return App("go_bvandnot", SInt, a, b)
		}
	}
	c := fg.freshConst(fr.prefix+x.Name(), ti.sortOf(x.Type()))
	fg.assumeValid(c, x.Type(), True)
	return c
}

// wrap applies Go's wrap-around for narrow and unsigned integer types; int/int64 are treated as mathematical.
func (fg *FnGen) wrap(t *Term, ty types.Type, fr *Frame, v ssa.Value) *Term {
	b, ok := ty.Underlying().(*types.Basic)
	if !ok {
		return t
	}
	switch b.Kind() {
	case types.Int, types.Int64:
		fg.note("int/int64 arithmetic treated as mathematical (no wrap-around)")
		return t
	case types.Uint8:
		return App("mod", SInt, t, IntLit(256))
	case types.Uint16:
		return App("mod", SInt, t, IntLit(65536))
	case types.Uint32:
		return App("mod", SInt, t, IntLit(4294967296))
	case types.Uint, types.Uint64, types.Uintptr:
		return App("mod", SInt, t, BigIntLit("18446744073709551616"))
	case types.Int32, types.Int16, types.Int8:
		fg.note("int8/16/32 arithmetic treated as mathematical (no wrap-around)")
		return t
	}
	return t
}

func (fg *FnGen) unop(fr *Frame, x *ssa.UnOp, st *State, reach *Term) *State {
	ti := fg.g.ti
	switch x.Op {
	case token.NOT:
		fr.vals[x] = Not(fg.val(fr, x.X))
	case token.SUB:
		v := fg.val(fr, x.X)
		if v.Sort == SInt {
			fr.vals[x] = fg.wrap(Neg(v), x.Type(), fr, x)
		} else {
			fr.vals[x] = fg.freshConst(fr.prefix+x.Name(), ti.sortOf(x.Type()))
		}
	case token.XOR:
		fr.vals[x] = App("go_bvnot", SInt, fg.val(fr, x.X))
	case token.ARROW:
		fg.note("channel receive abstracted (arbitrary value, arbitrary ok) in " + fr.fn.Name())
		if x.CommaOk {
			tt := x.Type().(*types.Tuple)
			v := fg.freshConst(fr.prefix+x.Name()+"_v", ti.sortOf(tt.At(0).Type()))
			fg.assumeValid(v, tt.At(0).Type(), True)
			ok := fg.freshConst(fr.prefix+x.Name()+"_ok", SBool)
			// a closed channel yields the zero value
			fg.assume(Implies(Not(ok), Eq(v, ti.zeroOf(tt.At(0).Type()))))
			fr.tuples[x] = []*Term{v, ok}
		} else {
			v := fg.freshConst(fr.prefix+x.Name(), ti.sortOf(x.Type()))
			fg.assumeValid(v, x.Type(), True)
			fr.vals[x] = v
		}
		// receiving synchronises with other goroutines: shared state may have changed
		return fg.havocAll(st)
	case token.MUL:
		v := fg.load(fr, x.X, st, reach, x.Pos())
		fr.vals[x] = v
	default:
		fr.vals[x] = fg.freshConst(fr.prefix+x.Name(), ti.sortOf(x.Type()))
	}
	return st
}

// ---------------------------------------------------------------- memory

// addrOf resolves the address denoted by pointer value p.
func (fg *FnGen) addrOf(fr *Frame, p ssa.Value) *Addr {
	if a, ok := fr.addrs[p]; ok {
		return a
	}
	pt, ok := p.Type().Underlying().(*types.Pointer)
	if !ok {
		return &Addr{Kind: "opaque"}
	}
	elem := pt.Elem()
	if g, ok := p.(*ssa.Global); ok {
		return &Addr{Kind: "global", Var: "G:" + g.String(), Sort: fg.g.ti.sortOf(elem), GoTyp: elem}
	}
	ref := fg.val(fr, p)
	if _, ok := elem.Underlying().(*types.Struct); ok {
		return &Addr{Kind: "struct", Base: ref, GoTyp: elem}
	}
	switch p.(type) {
	case *ssa.Alloc, *ssa.Parameter, *ssa.FreeVar, *ssa.Phi, *ssa.UnOp, *ssa.Extract, *ssa.Call, *ssa.TypeAssert, *ssa.ChangeType:
		name, srt := fg.cellVar(elem)
		return &Addr{Kind: "cell", Base: ref, Var: name, Sort: elemSort(srt), GoTyp: elem}
	}
	return &Addr{Kind: "opaque", GoTyp: elem}
}

func (fg *FnGen) loadRaw(fr *Frame, p ssa.Value, st *State, reach *Term, pos token.Pos) *Term {
	a := fg.addrOf(fr, p)
	ti := fg.g.ti
	pt := p.Type().Underlying().(*types.Pointer)
	switch a.Kind {
	case "field":
		if stt, ok := a.GoTyp.Underlying().(*types.Struct); ok {
			// embedded struct value: load all its fields from the sub-object
			return fg.loadStruct(st, fg.subRef(a.Var, a.Base), a.GoTyp, stt)
		}
		return Select(fg.lookup(st, a.Var, ArraySort(SInt, a.Sort)), a.Base)
	case "elem":
		s := a.Base
		if a.Bytes {
			mem := fg.lookup(st, a.Var, a.Sort)
			bs := Select(mem, SBase(s))
			fg.assumeIf(reach, Ge(StrLen(bs), Add(SOff(s), SCap(s))))
			return fg.byteAt(bs, Add(SOff(s), a.Idx), reach)
		}
		if stt, ok := a.GoTyp.Underlying().(*types.Struct); ok {
			_ = stt
		}
		mem := fg.lookup(st, a.Var, a.Sort)
		return Select(Select(mem, SBase(s)), Add(SOff(s), a.Idx))
	case "arrelem":
		arr := Select(fg.lookup(st, a.Var, ArraySort(SInt, a.Sort)), a.Base)
		if arr.Sort == SString {
			return fg.byteAt(arr, a.Idx, reach)
		}
		return Select(arr, a.Idx)
	case "global":
		if isErrorType(a.GoTyp) {
			return fg.sentinel(a.Var)
		}
		return fg.lookup(st, a.Var, a.Sort)
	case "struct":
		fg.safety("nil", reach, Neq(a.Base, IntLit(0)), pos)
		return fg.loadStruct(st, a.Base, a.GoTyp, a.GoTyp.Underlying().(*types.Struct))
	case "cell":
		fg.safety("nil", reach, Neq(a.Base, IntLit(0)), pos)
		return Select(fg.lookup(st, a.Var, ArraySort(SInt, a.Sort)), a.Base)
	}
	fg.note("load through untracked pointer havocked in " + fr.fn.Name())
	c := fg.freshConst(fr.prefix+"ld", ti.sortOf(pt.Elem()))
	fg.assumeValid(c, pt.Elem(), True)
	return c
}

func isErrorType(t types.Type) bool {
	return types.Identical(t, types.Universe.Lookup("error").Type())
}

func (fg *FnGen) sentinel(name string) *Term {
	id, ok := fg.g.sentinels[name]
	if !ok {
		id = 1000000 + len(fg.g.sentinels)
		fg.g.sentinels[name] = id
	}
	tag := Const("gerrtag:"+strings.TrimPrefix(name, "G:"), SInt)
	key := "sentinel:" + name
	if _, seen := fg.memo[key]; !seen {
		fg.memo[key] = tag
		fg.assume(Gt(tag, IntLit(0)))
		fg.g.useTrusted("package-level error variables are assigned once, non-nil, and pairwise distinct")
	}
	return MkIface(tag, IntLit(int64(id)))
}

func (fg *FnGen) loadStruct(st *State, ref *Term, named types.Type, stt *types.Struct) *Term {
	ti := fg.g.ti
	srt := ti.structSort(named, stt)
	var args []*Term
	for i := 0; i < stt.NumFields(); i++ {
		name, hs := fg.fieldVar(named, stt, i)
		ft := stt.Field(i).Type()
		if inner, ok := ft.Underlying().(*types.Struct); ok {
			args = append(args, fg.loadStruct(st, fg.subRef(name, ref), ft, inner))
		} else {
			args = append(args, Select(fg.lookup(st, name, hs), ref))
		}
	}
	return Ctor("mk-"+srt, srt, args...)
}

// storeValue writes value v of Go type ty at reference ref (struct -> per-field heaps, other -> cell heap).
func (fg *FnGen) storeValue(st *State, ref *Term, ty types.Type, v *Term) {
	ti := fg.g.ti
	if stt, ok := ty.Underlying().(*types.Struct); ok {
		srt := ti.structSort(ty, stt)
		for i := 0; i < stt.NumFields(); i++ {
			name, hs := fg.fieldVar(ty, stt, i)
			ft := stt.Field(i).Type()
			fv := Sel(fmt.Sprintf("%s.%s", srt, stt.Field(i).Name()), ti.sortOf(ft), i, v)
			if _, ok := ft.Underlying().(*types.Struct); ok {
				fg.storeValue(st, fg.subRef(name, ref), ft, fv)
			} else {
				fg.set(st, name, hs, Store(fg.lookup(st, name, hs), ref, fv))
			}
		}
		return
	}
	name, hs := fg.cellVar(ty)
	fg.set(st, name, hs, Store(fg.lookup(st, name, hs), ref, v))
}

func (fg *FnGen) store(fr *Frame, p ssa.Value, v *Term, vt types.Type, st *State, reach *Term, pos token.Pos) *State {
	a := fg.addrOf(fr, p)
	switch a.Kind {
	case "field":
		if _, ok := a.GoTyp.Underlying().(*types.Struct); ok {
			fg.storeValue(st, fg.subRef(a.Var, a.Base), a.GoTyp, v)
			return st
		}
		hs := ArraySort(SInt, a.Sort)
		fg.set(st, a.Var, hs, Store(fg.lookup(st, a.Var, hs), a.Base, v))
		return st
	case "elem":
		s := a.Base
		mem := fg.lookup(st, a.Var, a.Sort)
		if a.Bytes {
			bs := Select(mem, SBase(s))
			fg.assumeIf(reach, Ge(StrLen(bs), Add(SOff(s), SCap(s))))
			k := Add(SOff(s), a.Idx)
			nb := StrCat(Substr(bs, IntLit(0), k), StrFromCode(v), Substr(bs, Add(k, IntLit(1)), Sub(StrLen(bs), Add(k, IntLit(1)))))
			fg.set(st, a.Var, a.Sort, Store(mem, SBase(s), nb))
			return st
		}
		arr := Select(mem, SBase(s))
		fg.set(st, a.Var, a.Sort, Store(mem, SBase(s), Store(arr, Add(SOff(s), a.Idx), v)))
		return st
	case "arrelem":
		hs := ArraySort(SInt, a.Sort)
		h := fg.lookup(st, a.Var, hs)
		if a.Sort == SString {
			bs := Select(h, a.Base)
			nb := StrCat(Substr(bs, IntLit(0), a.Idx), StrFromCode(v), Substr(bs, Add(a.Idx, IntLit(1)), Sub(StrLen(bs), Add(a.Idx, IntLit(1)))))
			fg.set(st, a.Var, hs, Store(h, a.Base, nb))
			return st
		}
		fg.set(st, a.Var, hs, Store(h, a.Base, Store(Select(h, a.Base), a.Idx, v)))
		return st
	case "global":
		fg.set(st, a.Var, a.Sort, v)
		return st
	case "struct":
		fg.safety("nil", reach, Neq(a.Base, IntLit(0)), pos)
		fg.storeValue(st, a.Base, a.GoTyp, v)
		return st
	case "cell":
		fg.safety("nil", reach, Neq(a.Base, IntLit(0)), pos)
		hs := ArraySort(SInt, a.Sort)
		fg.set(st, a.Var, hs, Store(fg.lookup(st, a.Var, hs), a.Base, v))
		return st
	}
	fg.note("store through untracked pointer: heap havocked in " + fr.fn.Name())
	return fg.havocAll(st)
}

// byteView returns the string content of a []byte slice value in state st.
func (fg *FnGen) byteView(s *Term, st *State, reach *Term) *Term {
	mem := fg.lookup(st, "MemB", ArraySort(SInt, SString))
	bs := Select(mem, SBase(s))
	if reach != nil {
		fg.assumeIf(reach, Ge(StrLen(bs), Add(SOff(s), SCap(s))))
	} else if !hasBound(s) {
		// contract evaluation: the backing store of a live byte slice covers off+cap
		fg.assume(Ge(StrLen(bs), Add(SOff(s), SCap(s))))
	}
	return Substr(bs, SOff(s), SLen(s))
}

func (fg *FnGen) sliceOp(fr *Frame, x *ssa.Slice, st *State, reach *Term) *State {
	xv := fg.val(fr, x.X)
	var lo, hi, mx *Term
	if x.Low != nil {
		lo = fg.val(fr, x.Low)
	} else {
		lo = IntLit(0)
	}
	switch u := x.X.Type().Underlying().(type) {
	case *types.Basic: // string
		if x.High != nil {
			hi = fg.val(fr, x.High)
		} else {
			hi = StrLen(xv)
		}
		fg.safety("slice", reach, And(Ge(lo, IntLit(0)), Le(lo, hi), Le(hi, StrLen(xv))), x.Pos())
		fr.vals[x] = Substr(xv, lo, Sub(hi, lo))
	case *types.Slice:
		if x.High != nil {
			hi = fg.val(fr, x.High)
		} else {
			hi = SLen(xv)
		}
		if x.Max != nil {
			mx = fg.val(fr, x.Max)
		} else {
			mx = SCap(xv)
		}
		fg.safety("slice", reach, And(Ge(lo, IntLit(0)), Le(lo, hi), Le(hi, mx), Le(mx, SCap(xv))), x.Pos())
		fr.vals[x] = MkSlice(SBase(xv), Add(SOff(xv), lo), Sub(hi, lo), Sub(mx, lo))
	case *types.Pointer: // *array
		arr, _ := u.Elem().Underlying().(*types.Array)
		n := IntLit(0)
		if arr != nil {
			n = IntLit(arr.Len())
		}
		if x.High != nil {
			hi = fg.val(fr, x.High)
		} else {
			hi = n
		}
		fg.safety("slice", reach, And(Ge(lo, IntLit(0)), Le(lo, hi), Le(hi, n)), x.Pos())
		base := fg.freshConst(fr.prefix+"arrslice_"+x.Name(), SInt)
		fg.assume(Gt(base, fg.refLimit()))
		for _, a := range fg.allocs {
			fg.assume(Gt(base, a))
		}
		fg.allocs = []*Term{base}
		if arr != nil {
			// snapshot of the array content at slicing time (the varargs idiom: stores, then slice, then call)
			mn, ms, isB := fg.memVar(arr.Elem())
			if !isB {
				cn, cs := fg.cellVar(u.Elem())
				content := Select(fg.lookup(st, cn, cs), xv)
				fg.set(st, mn, ms, Store(fg.lookup(st, mn, ms), base, content))
				fg.note("slice of an array pointer is a snapshot of the array (later writes through the array are not seen through the slice)")
			} else {
				cn, cs := fg.cellVar(u.Elem())
				content := Select(fg.lookup(st, cn, cs), xv)
				fg.assumeIf(reach, Eq(StrLen(content), n))
				fg.set(st, mn, ms, Store(fg.lookup(st, mn, ms), base, content))
				fg.note("slice of an array pointer is a snapshot of the array (later writes through the array are not seen through the slice)")
			}
		}
		fr.vals[x] = MkSlice(base, lo, Sub(hi, lo), Sub(n, lo))
	default:
		fr.vals[x] = fg.freshConst(fr.prefix+x.Name(), fg.g.ti.sortOf(x.Type()))
	}
	return st
}

func (fg *FnGen) convert(fr *Frame, x *ssa.Convert, st *State, reach *Term) *Term {
	v := fg.val(fr, x.X)
	ti := fg.g.ti
	from, to := x.X.Type().Underlying(), x.Type().Underlying()
	fb, fok := from.(*types.Basic)
	tb, tok := to.(*types.Basic)
	switch {
	case fok && tok && fb.Info()&types.IsInteger != 0 && tb.Info()&types.IsInteger != 0:
		flo, fhi, _ := intRange(from)
		tlo, thi, _ := intRange(to)
		if bigLE(tlo, flo) && bigLE(fhi, thi) {
			return v // widening
		}
		switch tb.Kind() {
		case types.Uint8:
			return App("mod", SInt, v, IntLit(256))
		case types.Uint16:
			return App("mod", SInt, v, IntLit(65536))
		case types.Uint32:
			return App("mod", SInt, v, IntLit(4294967296))
		case types.Uint, types.Uint64, types.Uintptr:
			return App("mod", SInt, v, BigIntLit("18446744073709551616"))
		case types.Int, types.Int64:
			// uint64 -> int64: identity when it fits, otherwise wraps
			return Ite(Le(v, BigIntLit("9223372036854775807")), v, Sub(v, BigIntLit("18446744073709551616")))
		case types.Int32, types.Int16, types.Int8:
			// narrowing to a signed type wraps exactly as Go does: take the value modulo 2^n, re-centre around zero
			bits := map[types.BasicKind]uint{types.Int32: 32, types.Int16: 16, types.Int8: 8}[tb.Kind()]
			pow := new(big.Int).Lsh(big.NewInt(1), bits)
			half := new(big.Int).Rsh(pow, 1)
			m := App("mod", SInt, v, BigIntLit(pow.String()))
			c := fg.freshConst(fr.prefix+x.Name(), SInt)
			fg.assume(Eq(c, Ite(Lt(m, BigIntLit(half.String())), m, Sub(m, BigIntLit(pow.String())))))
			return c
		}
		c := fg.freshConst(fr.prefix+x.Name(), SInt)
		fg.assumeValid(c, x.Type(), True)
		return c
	case fok && fb.Info()&types.IsString != 0 && isByteSlice(x.Type()):
		// []byte(s): fresh backing store holding s
		base := fg.freshConst(fr.prefix+"conv_"+x.Name(), SInt)
		fg.assume(Gt(base, fg.refLimit()))
		for _, a := range fg.allocs {
			fg.assume(Gt(base, a))
		}
		fg.allocs = []*Term{base}
		hs := ArraySort(SInt, SString)
		fg.set(st, "MemB", hs, Store(fg.lookup(st, "MemB", hs), base, v))
		return MkSlice(base, IntLit(0), StrLen(v), StrLen(v))
	case tok && tb.Info()&types.IsString != 0 && isByteSlice(x.X.Type()):
		return fg.byteView(v, st, reach)
	case tok && tb.Info()&types.IsString != 0 && fok && fb.Info()&types.IsInteger != 0:
		// string(rune): exact for ASCII
		c := fg.freshConst(fr.prefix+x.Name(), SString)
		fg.assume(Implies(And(Ge(v, IntLit(0)), Lt(v, IntLit(128))), Eq(c, StrFromCode(v))))
		fg.assume(Implies(Ge(v, IntLit(128)), Gt(StrLen(c), IntLit(1))))
		return c
	}
	if v.Sort == ti.sortOf(x.Type()) && v.Sort != "Float" {
		return v
	}
	c := fg.freshConst(fr.prefix+x.Name(), ti.sortOf(x.Type()))
	fg.assumeValid(c, x.Type(), True)
	return c
}

func bigLE(a, b string) bool {
	// compare decimal integers given as strings
	neg := func(s string) bool { return strings.HasPrefix(s, "-") }
	abs := func(s string) string { return strings.TrimPrefix(s, "-") }
	cmpAbs := func(x, y string) int {
		if len(x) != len(y) {
			if len(x) < len(y) {
				return -1
			}
			return 1
		}
		return strings.Compare(x, y)
	}
	switch {
	case neg(a) && !neg(b):
		return true
	case !neg(a) && neg(b):
		return false
	case neg(a) && neg(b):
		return cmpAbs(abs(a), abs(b)) >= 0
	}
	return cmpAbs(a, b) <= 0
}

// next models the Next instruction of range loops.
func (fg *FnGen) next(fr *Frame, x *ssa.Next, st *State, reach *Term) *State {
	ti := fg.g.ti
	r, _ := x.Iter.(*ssa.Range)
	if x.IsString && r != nil {
		s := fg.val(fr, r.X)
		name := rangeVarName(r)
		pos := fg.lookup(st, name, SInt)
		ok := Lt(pos, StrLen(s))
		w := fg.freshConst(fr.prefix+x.Name()+"_w", SInt)
		rn := fg.freshConst(fr.prefix+x.Name()+"_rune", SInt)
		b0 := fg.byteAt(s, pos, And(reach, ok))
		g := And(reach, ok)
		fg.assumeIf(g, And(Ge(w, IntLit(1)), Le(w, IntLit(4)), Le(Add(pos, w), StrLen(s))))
		fg.assumeIf(g, Implies(Lt(b0, IntLit(128)), And(Eq(rn, b0), Eq(w, IntLit(1)))))
		// multi-byte (or invalid) sequence: rune >= 0x80 (RuneError is 0xFFFD), every byte consumed is >= 0x80
		jb := Bound("jb!"+x.Name(), SInt)
		fg.assumeIf(g, Implies(Ge(b0, IntLit(128)), And(Ge(rn, IntLit(128)), Le(rn, IntLit(0x10FFFF)),
			Forall([]*Term{jb}, Implies(And(Ge(jb, pos), Lt(jb, Add(pos, w))), Ge(StrCode(s, jb), IntLit(128)))))))
		fg.g.useTrusted("UTF-8 range decode abstraction: width 1..4; byte<0x80 => rune=byte,width=1; else rune>=0x80 and all consumed bytes >=0x80")
		fg.set(st, name, SInt, Ite(ok, Add(pos, w), pos))
		fr.tuples[x] = []*Term{ok, pos, rn}
		return st
	}
	// map iteration: arbitrary enumeration
	tt := x.Type().(*types.Tuple)
	var tup []*Term
	for i := 0; i < tt.Len(); i++ {
		c := fg.freshConst(fmt.Sprintf("%s%s_%d", fr.prefix, x.Name(), i), ti.sortOf(tt.At(i).Type()))
		fg.assumeValid(c, tt.At(i).Type(), True)
		tup = append(tup, c)
	}
	if r != nil {
		if mt, ok := r.X.Type().Underlying().(*types.Map); ok {
			// a yielded key is in the map and the value is the mapped value
			m := fg.val(fr, r.X)
			dom, val := fg.mapVars(mt, st)
			ks, _ := splitArraySort(elemSort(dom.Sort))
			if tup[1].Sort == ks {
				fact := Select(Select(dom, m), tup[1])
				if tup[2].Sort == elemSort(elemSort(val.Sort)) {
					fact = And(fact, Eq(tup[2], Select(Select(val, m), tup[1])))
				}
				// ... and has not been yielded by this iteration before
				name, srt := rangeVarName(r), ArraySort(ks, SBool)
				seen := fg.lookup(st, name, srt)
				fact = And(fact, Not(Select(seen, tup[1])))
				fg.assumeIf(And(reach, tup[0]), fact)
				fg.set(st, name, srt, Ite(tup[0], Store(seen, tup[1], True), seen))
			}
		}
	}
	fr.tuples[x] = tup
	return st
}

func (fg *FnGen) typeAssert(fr *Frame, x *ssa.TypeAssert, st *State, reach *Term) *State {
	ti := fg.g.ti
	v := fg.val(fr, x.X)
	var ok, res *Term
	if _, isIface := x.AssertedType.Underlying().(*types.Interface); isIface {
		ok = Neq(ITag(v), IntLit(0))
		if !types.AssignableTo(x.X.Type(), x.AssertedType) {
			ok = And(ok, App("implements_"+shortTypeName(x.AssertedType), SBool, ITag(v)))
		}
		res = v
	} else {
		tag := IntLit(int64(ti.typeID(x.AssertedType)))
		ok = Eq(ITag(v), tag)
		switch x.AssertedType.Underlying().(type) {
		case *types.Pointer, *types.Map, *types.Chan, *types.Signature:
			res = IVal(v)
		default:
			srt := ti.sortOf(x.AssertedType)
			res = App("unbox_"+sanitize(srt), srt, IVal(v))
		}
	}
	if x.CommaOk {
		zero := ti.zeroOf(x.AssertedType)
		fr.tuples[x] = []*Term{Ite(ok, res, zero), ok}
	} else {
		fg.safety("typeassert", reach, ok, x.Pos())
		fr.vals[x] = res
	}
	return st
}

// capturedReadOnly: a heap-allocated local whose address is only used by loads and stores of the allocating function
// and by closures that only load through it: no callee can change its content.
func capturedReadOnly(a *ssa.Alloc) bool {
	refs := a.Referrers()
	if refs == nil {
		return false
	}
	for _, r := range *refs {
		switch u := r.(type) {
		case *ssa.Store:
			if u.Addr != a {
				return false // the address itself is stored somewhere
			}
		case *ssa.UnOp, *ssa.DebugRef:
		case *ssa.MakeClosure:
			cf, ok := u.Fn.(*ssa.Function)
			if !ok {
				return false
			}
			for i, b := range u.Bindings {
				if b != a {
					continue
				}
				if i >= len(cf.FreeVars) {
					return false
				}
				fr := cf.FreeVars[i].Referrers()
				if fr == nil {
					return false
				}
				for _, rr := range *fr {
					switch rr.(type) {
					case *ssa.UnOp, *ssa.DebugRef:
					default:
						return false
					}
				}
			}
		default:
			return false
		}
	}
	return true
}

// freeVarReadOnly: every closure creation site of fn binds its i-th free variable to a captured-read-only cell.
func freeVarReadOnly(fn *ssa.Function, i int) bool {
	parent := fn.Parent()
	if parent == nil {
		return false
	}
	found := false
	for _, b := range parent.Blocks {
		for _, ins := range b.Instrs {
			mc, ok := ins.(*ssa.MakeClosure)
			if !ok || mc.Fn != fn {
				continue
			}
			if i >= len(mc.Bindings) {
				return false
			}
			a, ok := mc.Bindings[i].(*ssa.Alloc)
			if !ok || !capturedReadOnly(a) {
				return false
			}
			found = true
		}
	}
	return found
}
