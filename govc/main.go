package main

import (
	"encoding/json"
	"flag"
	"fmt"
	"go/types"
	"os"
	"path/filepath"
	"runtime/debug"
	"sort"
	"strings"
	"sync"
	"time"

	"golang.org/x/tools/go/packages"
	"golang.org/x/tools/go/ssa"
	"golang.org/x/tools/go/ssa/ssautil"
)

const repoModule = "github.com/openfga/openfga"

type Gen struct {
	prog          *ssa.Program
	ti            *TypeInfo
	contracts     map[string]*Contract // full function name / interface method name -> contract
	specs         map[string]*Contract
	all           []*Contract
	pkgByPath     map[string]*ssa.Package
	pkgsByName    map[string][]*ssa.Package
	purePats      []string
	trusted       map[string]bool
	pureUsed      map[string]bool
	usedContracts map[string]bool
	inlined       map[string]bool
	inlineCache   map[*ssa.Function]bool
	notLeaf       map[*ssa.Function]bool
	sentinels     map[string]int
	sliceDataOf   map[string]sliceDataInfo
	fnIndex       map[string]*ssa.Function
	funcPats      []string
	instShort     map[string]*ssa.Function // instantiations of generic functions of the repository, by short name
	mu            sync.Mutex
	reachCache    map[string]string
	repo          string
	verif         string
	mirrorDiffs   []string
}

func (g *Gen) useTrusted(s string) { g.trusted[s] = true }
func (g *Gen) usePure(s string)    { g.pureUsed[s] = true }

func (g *Gen) pkgByName(name string) *ssa.Package {
	ps := g.pkgsByName[name]
	if len(ps) == 0 {
		return nil
	}
	// prefer repository packages
	for _, p := range ps {
		if strings.HasPrefix(p.Pkg.Path(), repoModule) {
			return p
		}
	}
	return ps[0]
}

func (g *Gen) contractFor(d callDesc) *Contract {
	if ct, ok := g.contracts[d.full]; ok && (ct.Kind == "func" || ct.Kind == "iface") {
		return ct
	}
	return nil
}

func (g *Gen) isFunction(d callDesc) bool {
	for _, p := range g.funcPats {
		if globMatch(p, d.full) {
			return true
		}
	}
	return false
}

func (g *Gen) isPure(d callDesc) bool {
	for _, p := range g.purePats {
		// effects-list patterns are matched against the full (import-path qualified) name only
		if globMatch(p, d.full) {
			return true
		}
		if strings.HasSuffix(p, "*") && strings.HasPrefix(d.full, p[:len(p)-1]) {
			return true
		}
	}
	return false
}

// mayReach: does f transitively (static calls only, bounded) reach a callee matching pats? returns the witness name.
func (g *Gen) mayReach(f *ssa.Function, pats []string) string {
	key := f.String() + "|" + strings.Join(pats, "|")
	if v, ok := g.reachCache[key]; ok {
		return v
	}
	g.reachCache[key] = ""
	seen := map[*ssa.Function]bool{}
	var visit func(fn *ssa.Function, depth int) string
	visit = func(fn *ssa.Function, depth int) string {
		if seen[fn] || depth > 6 || fn.Pkg == nil || !strings.HasPrefix(fn.Pkg.Pkg.Path(), repoModule) {
			return ""
		}
		seen[fn] = true
		for _, b := range fn.Blocks {
			for _, ins := range b.Instrs {
				ci, ok := ins.(ssa.CallInstruction)
				if !ok {
					if mc, ok := ins.(*ssa.MakeClosure); ok {
						if cf, ok := mc.Fn.(*ssa.Function); ok {
							if w := visit(cf, depth+1); w != "" {
								return w
							}
						}
					}
					continue
				}
				c := ci.Common()
				var d callDesc
				if c.IsInvoke() {
					tn := types.TypeString(c.Value.Type(), nil)
					if k := strings.IndexByte(tn, '['); k >= 0 {
						tn = tn[:k]
					}
					d.full = tn + "." + c.Method.Name()
					d.short = shortDesc(d.full)
				} else if sf := c.StaticCallee(); sf != nil {
					d.full = sf.String()
					d.short = shortDesc(d.full)
					d.static = sf
				} else {
					continue
				}
				if matchAny(pats, d) {
					return d.short
				}
				if d.static != nil {
					if w := visit(d.static, depth+1); w != "" {
						return w
					}
				}
			}
		}
		return ""
	}
	w := visit(f, 0)
	g.reachCache[key] = w
	return w
}

// ---------------------------------------------------------------- loading

func findContractFiles(repo string) []string {
	var out []string
	filepath.Walk(repo, func(p string, info os.FileInfo, err error) error {
		if err != nil {
			return nil
		}
		if info.IsDir() && (info.Name() == ".git" || info.Name() == "node_modules") {
			return filepath.SkipDir
		}
		if !info.IsDir() && info.Name() == "verif_contracts.go" {
			out = append(out, p)
		}
		return nil
	})
	sort.Strings(out)
	return out
}

func (g *Gen) loadContracts() error {
	g.contracts = map[string]*Contract{}
	g.specs = map[string]*Contract{}
	// mirror: /verif/contracts/<rel>/verif_contracts.go
	mirror := map[string]string{}
	filepath.Walk(filepath.Join(g.verif, "contracts"), func(p string, info os.FileInfo, err error) error {
		if err == nil && !info.IsDir() && info.Name() == "verif_contracts.go" {
			rel, _ := filepath.Rel(filepath.Join(g.verif, "contracts"), p)
			mirror[rel] = p
		}
		return nil
	})
	files := map[string]string{} // rel -> actual path used
	for _, f := range findContractFiles(g.repo) {
		rel, _ := filepath.Rel(g.repo, f)
		files[rel] = f
		if m, ok := mirror[rel]; ok {
			a, _ := os.ReadFile(f)
			b, _ := os.ReadFile(m)
			if string(a) != string(b) {
				g.mirrorDiffs = append(g.mirrorDiffs, rel+": /repo copy differs from /verif/contracts mirror; the mirror is used")
				files[rel] = m
			}
		} else {
			g.mirrorDiffs = append(g.mirrorDiffs, rel+": no mirror in /verif/contracts (ignored)")
			delete(files, rel)
		}
	}
	for rel, m := range mirror {
		if _, ok := files[rel]; !ok {
			g.mirrorDiffs = append(g.mirrorDiffs, rel+": missing in /repo, mirror used")
			files[rel] = m
		}
	}
	var rels []string
	for r := range files {
		rels = append(rels, r)
	}
	sort.Strings(rels)
	for _, rel := range rels {
		pkgPath := repoModule + "/" + filepath.ToSlash(filepath.Dir(rel))
		cs, err := ParseContractFile(files[rel], pkgPath)
		if err != nil {
			return err
		}
		for _, c := range cs {
			c.Dir = filepath.Dir(rel)
			g.all = append(g.all, c)
		}
	}
	specs, _ := filepath.Glob(filepath.Join(g.verif, "spec", "*.spec"))
	sort.Strings(specs)
	for _, sf := range specs {
		cs, err := ParseContractFile(sf, "")
		if err != nil {
			return err
		}
		g.all = append(g.all, cs...)
	}
	if data, err := os.ReadFile(filepath.Join(g.verif, "spec", "effects.list")); err == nil {
		for _, l := range strings.Split(string(data), "\n") {
			l = strings.TrimSpace(l)
			if l == "" || strings.HasPrefix(l, "#") {
				continue
			}
			if strings.HasPrefix(l, "function ") {
				g.funcPats = append(g.funcPats, strings.TrimSpace(strings.TrimPrefix(l, "function ")))
				continue
			}
			g.purePats = append(g.purePats, strings.TrimSpace(strings.TrimPrefix(l, "pure ")))
		}
	}
	for _, c := range g.all {
		switch c.Kind {
		case "spec", "uninterp":
			g.specs[c.Key] = c
		case "func", "iface":
			g.contracts[c.fullKey()] = c
		}
	}
	return nil
}

func (c *Contract) fullKey() string {
	if c.Pkg == "" {
		return c.Key
	}
	k := c.Key
	// "(*T).M" -> "(*pkg.T).M" ; "(T).M" -> "(pkg.T).M"; "F" -> "pkg.F"
	if strings.HasPrefix(k, "(*") {
		return "(*" + c.Pkg + "." + k[2:]
	}
	if strings.HasPrefix(k, "(") {
		return "(" + c.Pkg + "." + k[1:]
	}
	return c.Pkg + "." + k
}

func (g *Gen) load(patterns []string) error {
	overlay := map[string][]byte{}
	// inject mirror contract files missing from the repo (so that the verif-tagged package is what we analyse)
	cfg := &packages.Config{Mode: packages.LoadAllSyntax, Dir: g.repo, BuildFlags: []string{"-tags=verif"}, Overlay: overlay,
		Env: goEnv()}
	t0 := time.Now()
	pkgs, err := packages.Load(cfg, patterns...)
	if err != nil {
		return err
	}
	nerr := 0
	packages.Visit(pkgs, nil, func(p *packages.Package) {
		for _, e := range p.Errors {
			if nerr < 10 {
				fmt.Fprintf(os.Stderr, "load error: %v\n", e)
			}
			nerr++
		}
	})
	if nerr > 0 {
		return fmt.Errorf("%d package load errors", nerr)
	}
	t1 := time.Now()
	prog, _ := ssautil.AllPackages(pkgs, ssa.InstantiateGenerics|ssa.GlobalDebug)
	// build SSA bodies only for repository packages and the few dependencies whose leaf functions are inlined;
	// other packages are built on demand (ensureBuilt)
	for _, p := range prog.AllPackages() {
		pp := p.Pkg.Path()
		if strings.HasPrefix(pp, repoModule) || strings.HasPrefix(pp, "github.com/openfga/api") {
			p.Build()
		}
	}
	if os.Getenv("GOVC_TRACE") != "" {
		fmt.Fprintf(os.Stderr, "packages.Load %.1fs, ssa %.1fs\n", t1.Sub(t0).Seconds(), time.Since(t1).Seconds())
	}
	g.prog = prog
	g.pkgByPath = map[string]*ssa.Package{}
	g.pkgsByName = map[string][]*ssa.Package{}
	for _, p := range prog.AllPackages() {
		g.pkgByPath[p.Pkg.Path()] = p
		g.pkgsByName[p.Pkg.Name()] = append(g.pkgsByName[p.Pkg.Name()], p)
	}
	g.fnIndex = map[string]*ssa.Function{}
	g.instShort = map[string]*ssa.Function{}
	for fn := range ssautil.AllFunctions(prog) {
		if fn.Origin() != nil {
			// an instantiation of a generic function can be put under contract by its instantiated name, e.g.
			// numericTypeConverterFunc[uint64] (its SSA body is specialised to the type argument)
			if _, taken := g.fnIndex[fn.String()]; !taken && len(fn.Blocks) > 0 {
				g.fnIndex[fn.String()] = fn
				// ... and by its short name, so that a contract can write the type argument without its import path:
				// (*StaticIterator[*v1.Tuple]).Next
				if fn.Pkg == nil || strings.HasPrefix(fn.Pkg.Pkg.Path(), repoModule) {
					g.instShort[shortDesc(fn.String())] = fn
				}
			}
			continue
		}
		g.fnIndex[fn.String()] = fn
	}
	return nil
}

// ---------------------------------------------------------------- per-function generation

func (g *Gen) newFnGen(fn *ssa.Function, ct *Contract, name string) *FnGen {
	fg := &FnGen{g: g, fn: fn, ct: ct, name: name, memo: map[string]*Term{}, stateSorts: map[string]string{},
		counters: map[string]int{}, notes: map[string]bool{}, paramEnv: map[string]CVal{}}
	resetRefAges()
	fg.gens = append(fg.gens, &genInfo{kind: "init"})
	fg.initState = &State{gen: 0, over: map[string]*Term{}}
	if ct != nil {
		fg.monitors = ct.Monitors
	}
	return fg
}

func shortFnName(fn *ssa.Function) string {
	return shortDesc(fn.String())
}

func (g *Gen) verifyFunc(ct *Contract) (fg *FnGen, err error) {
	fn := g.fnIndex[ct.fullKey()]
	if fn == nil && strings.Contains(ct.Key, "[") {
		fn = g.instShort[shortDesc(ct.fullKey())]
		if fn == nil && os.Getenv("GOVC_TRACE") != "" {
			for k := range g.instShort {
				fmt.Fprintln(os.Stderr, "instantiation:", k)
			}
		}
	}
	if fn == nil {
		return nil, fmt.Errorf("contract %s: function %s not found in the tree under test", ct.File, ct.fullKey())
	}
	fg = g.newFnGen(fn, ct, shortFnName(fn))
	defer func() {
		if r := recover(); r != nil {
			if os.Getenv("GOVC_TRACE") != "" {
				fmt.Fprintf(os.Stderr, "generator failure in %s: %v\n%s\n", fn, r, debug.Stack())
			}
			err = fmt.Errorf("generator failure in %s: %v", fn, r)
		}
	}()
	for _, b := range fn.Blocks {
		for _, s := range b.Succs {
			if isBackEdge(b, s) {
				fg.quantIdx = true
			}
		}
	}
	if ct.Options["quantified_index"] != "" {
		fg.quantIdx = true
	}
	fr := fg.newFrame(fn, 0, "")
	fr.top = true
	fg.top = fr
	st := fg.initState.clone()
	for _, p := range fn.Params {
		t := Const("p_"+p.Name(), g.ti.sortOf(p.Type()))
		fr.vals[p] = t
		fg.assumeValid(t, p.Type(), True)
		fg.assumeOld(t, p.Type())
		fg.paramEnv[p.Name()] = CVal{T: t, Ty: p.Type()}
		fg.inputs = append(fg.inputs, InputVar{Name: p.Name(), GoType: types.TypeString(p.Type(), nil), Term: t})
	}
	if len(ct.ParamNames) == len(fn.Params) {
		// the names written in the contract header are aliases of the real parameter names
		for i, n := range ct.ParamNames {
			if n != "_" && n != "" {
				fg.paramEnv[n] = fg.paramEnv[fn.Params[i].Name()]
			}
		}
	}
	for i, fv := range fn.FreeVars {
		t := fg.val(fr, fv)
		fg.paramEnv[fv.Name()] = CVal{T: t, Ty: fv.Type()}
		// a captured variable that neither the enclosing function's callees nor any of its closures can write keeps its
		// content across the calls made by this closure
		if pt, ok := fv.Type().Underlying().(*types.Pointer); ok && freeVarReadOnly(fn, i) {
			fg.stackCells = append(fg.stackCells, stackCell{ref: t, ty: pt.Elem(), src: fv})
		}
	}
	env := fg.baseEnv(fr, st)
	for _, r := range ct.Requires {
		v, e := env.evalBool(r.Expr)
		if e != nil {
			fg.bindFailure("requires:"+r.Label, e, fn.Pos())
			continue
		}
		fg.assume(v)
	}
	nreq := len(fg.assumes)
	fg.runBlocks(fr, st, True)
	// postconditions
	for _, b := range fn.Blocks {
		for _, ins := range b.Instrs {
			if phi, ok := ins.(*ssa.Phi); ok && phi.Comment == "rangeindex" {
				if t, ok := fr.vals[phi]; ok {
					fg.witnesses = append(fg.witnesses, t, Add(t, IntLit(1)))
				}
			}
		}
	}
	for _, e := range ct.Ensures {
		var goals []*Term
		bad := false
		for _, rs := range fr.rets {
			penv := fg.baseEnv(fr, rs.state)
			for ln, lv := range rs.locals {
				if _, taken := penv.vars[ln]; !taken {
					penv.vars[ln] = lv // source-level local variable at this return site
				}
			}
			// locals not yet assigned on the way to this return site: arbitrary values
			for _, bl := range fr.locals {
				for ln, lv := range bl {
					if _, taken := penv.vars[ln]; !taken && lv.T != nil {
						penv.vars[ln] = CVal{T: Const("unassigned:"+ln, lv.T.Sort), Ty: lv.Ty}
					}
				}
			}
			for i, rn := range ct.Results {
				if i < len(rs.results) {
					penv.vars[rn] = CVal{T: rs.results[i], Ty: fn.Signature.Results().At(i).Type()}
				}
			}
			v, err2 := penv.evalBool(e.Expr)
			if err2 != nil {
				fg.bindFailure("post:"+e.Label, err2, fn.Pos())
				bad = true
				break
			}
			goals = append(goals, Implies(rs.reach, v))
		}
		if bad {
			continue
		}
		if hasQuantCE(e.Expr) && len(goals) > 1 {
			// quantified clauses: one obligation per return site (smaller queries)
			for i, gl := range goals {
				o := fg.addObl("post", fmt.Sprintf("post:%s@r%d", e.Label, i), True, gl, fr.rets[i].instr.Pos(), e.Src)
				if o != nil {
					o.clause = e
				}
			}
			continue
		}
		o := fg.addObl("post", "post:"+e.Label, True, And(goals...), fn.Pos(), e.Src)
		if o != nil {
			o.clause = e
			// outputs for replay: merged results
		}
	}
	if ct.Pure || len(ct.Modifies) > 0 {
		fg.frameObligations(fr, ct)
	}
	// refinement of interface contracts: the implementation's results satisfy the interface method's ensures
	for _, rk := range ct.Refines {
		ic := g.contracts[rk]
		if ic == nil {
			ic = g.contracts[ct.Pkg+"."+rk]
		}
		if ic == nil || ic.Kind != "iface" {
			fg.bindFailure("refines:"+rk, fmt.Errorf("no interface contract %s", rk), fn.Pos())
			continue
		}
		if len(fn.Params) == 0 {
			continue
		}
		for _, e := range ic.Ensures {
			var goals []*Term
			bad := false
			for _, rs := range fr.rets {
				penv := fg.baseEnv(fr, rs.state)
				// rebind: interface parameter names -> implementation parameters (positional, after the receiver)
				vars := map[string]CVal{}
				recvT := fr.vals[fn.Params[0]]
				vars["recv"] = CVal{T: fg.makeIface(recvT, fn.Params[0].Type()), Ty: nil}
				names := ic.ParamNames
				if len(names) == len(fn.Params) {
					names = names[1:]
				}
				for i, n := range names {
					if i+1 < len(fn.Params) {
						p := fn.Params[i+1]
						vars[n] = CVal{T: fr.vals[p], Ty: p.Type()}
					}
				}
				for i, rn := range ic.Results {
					if i < len(rs.results) {
						vars[rn] = CVal{T: rs.results[i], Ty: fn.Signature.Results().At(i).Type()}
					}
				}
				penv.vars = vars
				if penv.old != nil {
					penv.old = &Env{fg: fg, vars: vars, st: fg.initState}
				}
				v, err2 := penv.evalBool(e.Expr)
				if err2 != nil {
					fg.bindFailure("refines:"+rk+":"+e.Label, err2, fn.Pos())
					bad = true
					break
				}
				goals = append(goals, Implies(rs.reach, v))
			}
			if bad {
				continue
			}
			o := fg.addObl("refines", "refines:"+rk+":"+e.Label, True, And(goals...), fn.Pos(), e.Src)
			if o != nil {
				o.clause = e
			}
		}
	}
	// vacuity: the preconditions (with parameter validity) must be satisfiable, and each loop invariant reachable
	if len(ct.Requires) > 0 {
		o := &Obligation{Name: fg.name + "#vacuity:requires", Fn: fg.name, Kind: "vacuity", Assumes: append([]*Term{}, fg.assumes[:nreq]...),
			Goal: False, ExpectSat: true, Props: ct.Props, ct: ct, fg: fg}
		fg.obls = append(fg.obls, o)
	}
	// every fact collected while walking the function (callee posts, assert-then-assume, abstractions) taken together
	// must not be refutable: a contradiction there would discharge every obligation of the function vacuously
	if len(fg.obls) > 0 {
		o := &Obligation{Name: fg.name + "#vacuity:facts", Fn: fg.name, Kind: "vacuity", Assumes: append([]*Term{}, fg.assumes...),
			Goal: False, ExpectSat: true, Props: ct.Props, ct: ct, fg: fg}
		fg.obls = append(fg.obls, o)
	}
	// ... and so must the facts together with each return site's path condition: a fact that contradicts a path (an
	// abstraction gone wrong, a callee contract that excludes the path) would discharge every obligation on that path
	// vacuously. Only a proof of unreachability fails the guard; return sites that ARE unreachable on the unchanged tree
	// are listed per function in /verif/expect/unreachable.json.
	if len(fg.obls) > 0 && os.Getenv("GOVC_NOCOVER") == "" {
		for i, rs := range fr.rets {
			if rs.reach == True {
				continue
			}
			o := &Obligation{Name: fmt.Sprintf("%s#vacuity:path@r%d", fg.name, i), Fn: fg.name, Kind: "vacuity",
				Assumes: append(append([]*Term{}, fg.assumes...), rs.reach), Goal: False, ExpectSat: true, Props: ct.Props, ct: ct, fg: fg,
				Pos: g.prog.Fset.Position(rs.instr.Pos()).String()}
			fg.obls = append(fg.obls, o)
		}
	}
	return fg, nil
}

// verifyLemma: a lemma is straight-line ghost code over contract calls.
func (g *Gen) verifyLemma(ct *Contract) (fg *FnGen, err error) {
	fg = g.newFnGen(nil, ct, "lemma:"+ct.Key)
	defer func() {
		if r := recover(); r != nil {
			err = fmt.Errorf("generator failure in lemma %s: %v", ct.Key, r)
		}
	}()
	st := fg.initState.clone()
	env := &Env{fg: fg, vars: map[string]CVal{}, st: st}
	for i, pn := range ct.ParamNames {
		srt := sortOfDeclType(ct.ParamTypes[i])
		var ty types.Type
		switch ct.ParamTypes[i] {
		case "int", "":
			ty = types.Typ[types.Int]
		case "string":
			ty = types.Typ[types.String]
		case "bool":
			ty = types.Typ[types.Bool]
		case "byte":
			ty = types.Typ[types.Uint8]
			srt = SInt
		default:
			if t, e := env.resolveType(&CE{Kind: "str", Str: ct.ParamTypes[i]}); e == nil {
				ty = t
				srt = g.ti.sortOf(t)
			}
		}
		t := Const("l_"+pn, srt)
		if ty != nil {
			fg.assumeValid(t, ty, True)
			fg.assumeOld(t, ty)
		}
		env.vars[pn] = CVal{T: t, Ty: ty}
		fg.inputs = append(fg.inputs, InputVar{Name: pn, GoType: ct.ParamTypes[i], Term: t})
	}
	fg.paramEnv = env.vars
	for _, r := range ct.Requires {
		v, e := env.evalBool(r.Expr)
		if e != nil {
			fg.bindFailure("requires:"+r.Label, e, 0)
			continue
		}
		fg.assume(v)
	}
	nreq := len(fg.assumes)
	fr := fg.newFrame(nil, 1, "")
	for si, s := range ct.Stmts {
		switch s.Kind {
		case "let":
			call := s.Call
			if call.Kind != "call" {
				v, e := env.eval(call)
				if e != nil {
					fg.bindFailure(fmt.Sprintf("let:%d", si), e, 0)
					continue
				}
				env.vars[s.Names[0]] = v
				continue
			}
			fname := call.Args[0].String()
			if s.FnKey != "" {
				fname = s.FnKey
			}
			var target *ssa.Function
			if p := g.pkgByPath[ct.Pkg]; p != nil {
				target = g.fnIndex[(&Contract{Pkg: ct.Pkg, Key: fname}).fullKey()]
			}
			if target == nil {
				target = g.fnIndex[fname]
			}
			if target == nil {
				fg.bindFailure(fmt.Sprintf("let:%d", si), fmt.Errorf("unknown function %s", fname), 0)
				continue
			}
			var args []*Term
			var tys []types.Type
			okArgs := true
			for _, a := range call.Args[1:] {
				v, e := env.eval(a)
				if e != nil || v.T == nil {
					fg.bindFailure(fmt.Sprintf("let:%d", si), fmt.Errorf("argument %s: %v", a, e), 0)
					okArgs = false
					break
				}
				args = append(args, v.T)
				tys = append(tys, v.Ty)
			}
			if !okArgs {
				continue
			}
			d := callDesc{static: target, full: target.String(), short: shortDesc(target.String()), sig: target.Signature}
			cct := g.contractFor(d)
			var res []*Term
			if cct != nil {
				res, st = fg.applyContract(fr, cct, d, args, tys, st, True, 0, fmt.Sprintf("c%d_%s", si, target.Name()))
			} else if fg.inlineable(target, 0) {
				res, st = fg.inline(fr, target, args, st, True, fmt.Sprintf("c%d_%s", si, target.Name()))
			} else {
				fg.bindFailure(fmt.Sprintf("let:%d", si), fmt.Errorf("function %s has no contract", fname), 0)
				continue
			}
			env.st = st
			for i, n := range s.Names {
				if i < len(res) && n != "_" {
					env.vars[n] = CVal{T: res[i], Ty: target.Signature.Results().At(i).Type()}
				}
			}
		case "use":
			if s.Expr.Kind != "call" || s.Expr.Args[0].Kind != "ident" {
				fg.bindFailure(fmt.Sprintf("use:%d", si), fmt.Errorf("use needs lemmaName(args)"), 0)
				continue
			}
			var lem *Contract
			for _, c := range g.all {
				if c.Kind == "lemma" && c.Key == s.Expr.Args[0].Name {
					lem = c
				}
			}
			if lem == nil || len(lem.ParamNames) != len(s.Expr.Args)-1 {
				fg.bindFailure(fmt.Sprintf("use:%d", si), fmt.Errorf("unknown lemma or wrong arity: %s", s.Expr.Args[0].Name), 0)
				continue
			}
			lenv := &Env{fg: fg, vars: map[string]CVal{}, st: st, pkg: g.pkgByPath[lem.Pkg]}
			okArgs := true
			for i, a := range s.Expr.Args[1:] {
				v, e := env.eval(a)
				if e != nil || v.T == nil {
					fg.bindFailure(fmt.Sprintf("use:%d", si), fmt.Errorf("argument %d: %v", i, e), 0)
					okArgs = false
					break
				}
				lenv.vars[lem.ParamNames[i]] = v
			}
			if !okArgs {
				continue
			}
			if len(lem.Stmts) > 0 {
				hasLet := false
				for _, ls := range lem.Stmts {
					if ls.Kind == "let" {
						hasLet = true
					}
				}
				if hasLet {
					fg.bindFailure(fmt.Sprintf("use:%d", si), fmt.Errorf("only lemmas without let statements can be instantiated"), 0)
					continue
				}
			}
			for _, r := range lem.Requires {
				v, e := lenv.evalBool(r.Expr)
				if e != nil {
					fg.bindFailure(fmt.Sprintf("use:%d:requires", si), e, 0)
					continue
				}
				fg.addObl("lemma", fmt.Sprintf("use:%d:%s:requires:%s", si, lem.Key, r.Label), True, v, 0, r.Src)
				fg.assume(v)
			}
			for _, en := range lem.Ensures {
				v, e := lenv.evalBool(en.Expr)
				if e != nil {
					fg.bindFailure(fmt.Sprintf("use:%d:ensures", si), e, 0)
					continue
				}
				fg.assume(v)
			}
			g.usedContracts["lemma:"+lem.Key] = true
		case "assert":
			v, e := env.evalBool(s.Expr)
			if e != nil {
				fg.bindFailure(fmt.Sprintf("assert:%d", si), e, 0)
				continue
			}
			fg.addObl("lemma", fmt.Sprintf("assert:%d", si), True, v, 0, s.Src)
			fg.assume(v)
		case "assume":
			v, e := env.evalBool(s.Expr)
			if e != nil {
				fg.bindFailure(fmt.Sprintf("assume:%d", si), e, 0)
				continue
			}
			g.useTrusted("assume in lemma " + ct.Key + ": " + s.Src)
			fg.assume(v)
		}
	}
	for _, e := range ct.Ensures {
		v, e2 := env.evalBool(e.Expr)
		if e2 != nil {
			fg.bindFailure("post:"+e.Label, e2, 0)
			continue
		}
		o := fg.addObl("lemma", "post:"+e.Label, True, v, 0, e.Src)
		if o != nil {
			o.clause = e
		}
	}
	if len(ct.Requires) > 0 {
		o := &Obligation{Name: fg.name + "#vacuity:requires", Fn: fg.name, Kind: "vacuity", Assumes: append([]*Term{}, fg.assumes[:nreq]...),
			Goal: False, ExpectSat: true, Props: ct.Props, ct: ct, fg: fg}
		fg.obls = append(fg.obls, o)
	}
	return fg, nil
}

// ---------------------------------------------------------------- solving

type OblResult struct {
	Name     string            `json:"name"`
	Kind     string            `json:"kind"`
	Status   string            `json:"status"` // discharged | failed
	Solver   string            `json:"solver,omitempty"`
	Secs     float64           `json:"secs"`
	Raw      string            `json:"raw_status"`
	All      map[string]string `json:"per_solver,omitempty"`
	Pos      string            `json:"pos,omitempty"`
	Src      string            `json:"clause,omitempty"`
	Note     string            `json:"note,omitempty"`
	Model    map[string]string `json:"model,omitempty"`
	Output   string            `json:"solver_output,omitempty"`
	obl      *Obligation
	SmtFile  string `json:"smt_file,omitempty"`
	Replayed string `json:"replay,omitempty"`
}

// relevant filters assumptions to those sharing symbols (transitively) with the goal.
func relevant(assumes []*Term, goal *Term, defs map[string]*FunDef) []*Term {
	syms := func(t *Term) map[string]bool {
		m := map[string]bool{}
		seen := map[*Term]bool{}
		var walk func(x *Term)
		walk = func(x *Term) {
			if seen[x] {
				return
			}
			seen[x] = true
			switch x.Kind {
			case KConst:
				m[x.Op] = true
			case KApp:
				if d, ok := defs[x.Op]; ok {
					walk(d.Body) // a defined function stands for its body
				} else if !builtinOps[x.Op] && ctorToDT[x.Op] == nil && selToDT[x.Op] == nil && x.Op != "as-const" {
					m["fn:"+x.Op] = true
				}
			}
			for _, a := range x.Args {
				walk(a)
			}
		}
		walk(t)
		return m
	}
	type item struct {
		t    *Term
		syms map[string]bool
		used bool
	}
	items := make([]*item, len(assumes))
	for i, a := range assumes {
		items[i] = &item{t: a, syms: syms(a)}
	}
	cur := syms(goal)
	changed := true
	for changed {
		changed = false
		for _, it := range items {
			if it.used {
				continue
			}
			hit := len(it.syms) == 0
			for s := range it.syms {
				if cur[s] {
					hit = true
					break
				}
			}
			if hit {
				it.used = true
				changed = true
				for s := range it.syms {
					cur[s] = true
				}
			}
		}
	}
	var out []*Term
	for _, it := range items {
		if it.used {
			out = append(out, it.t)
		}
	}
	return out
}

func (g *Gen) solveObligation(o *Obligation, workdir string, timeoutS int, all bool) OblResult {
	var asserts, origAsserts []*Term
	var vals []*Term
	if o.ExpectSat {
		asserts = append(asserts, o.Assumes...)
	} else {
		var dm map[string]*FunDef
		if o.fg != nil {
			dm = o.fg.defs
		}
		asserts = append(asserts, relevant(o.Assumes, o.Goal, dm)...)
		asserts = append(asserts, Not(o.Goal))
		origAsserts = asserts
		if os.Getenv("GOVC_NOINST") == "" {
			asserts = instantiate(asserts)
		}
		for _, in := range o.Inputs {
			switch in.Term.Sort {
			case SInt, SBool, SString:
				vals = append(vals, in.Term)
			}
		}
	}
	var defs []*FunDef
	if o.fg != nil {
		defs = defsUsed(o.fg.defs, asserts)
	}
	script := ScriptD(asserts, vals, defs)
	if o.ExpectSat && timeoutS > 3 {
		timeoutS = 3
	}
	// quantified queries: the string-abstracted variant (strings as an uninterpreted sort: sound for discharging only)
	// runs beside the exact one, so that a proof that needs only instantiation does not wait for the string solvers
	quantified := false
	if !o.ExpectSat {
		for _, a := range asserts {
			if hasQuant(a) || hasStrConcat(a) {
				quantified = true
				break
			}
		}
	}
	var absCh chan SolveResult
	if quantified {
		absCh = make(chan SolveResult, 1)
		absScript := ScriptAbstract(asserts, defs)
		go func() { absCh <- Solve(absScript, workdir, o.Name+"__abs", timeoutS, false) }()
	}
	r := Solve(script, workdir, o.Name, timeoutS, all)
	if absCh != nil && (r.Status == "unknown" || r.Status == "timeout") {
		if ra := <-absCh; ra.Status == "unsat" {
			ra.Solver += "(string-abstracted)"
			r = ra
		}
	}
	var candidate *SolveResult
	if !o.ExpectSat && (r.Status == "unknown" || r.Status == "timeout") {
		// second attempt without the quantified assumptions (dropping assumptions is always sound): string goals that
		// only need the quantifier-free facts are then within reach of the string solvers
		var qf []*Term
		dropped := 0
		for _, a := range origAsserts[:len(origAsserts)-1] {
			if hasQuant(a) {
				dropped++
				continue
			}
			qf = append(qf, a)
		}
		if dropped > 0 {
			qf = append(qf, origAsserts[len(origAsserts)-1])
			r2 := Solve(ScriptD(qf, vals, defsUsed(o.fg.defsOrNil(), qf)), workdir, o.Name+"__qf", timeoutS, all)
			if r2.Status == "unsat" {
				r2.Solver += "(qf-assumptions)"
				r = r2
			} else if r2.Status == "sat" {
				// a model of the relaxed query is only a candidate counterexample: it is used (for replay on the real
				// code) only if the longer attempts below do not decide the obligation
				r2.Solver += "(candidate model from the quantifier-free relaxation)"
				candidate = &r2
			}
		}
	}
	if !o.ExpectSat && (r.Status == "unknown" || r.Status == "timeout") {
		// last resort before reporting an undischarged obligation: the same queries with a longer time limit (a loaded
		// machine must not turn into an alarm)
		var abs4 chan SolveResult
		if quantified {
			abs4 = make(chan SolveResult, 1)
			absScript := ScriptAbstract(asserts, defs)
			go func() { abs4 <- Solve(absScript, workdir, o.Name+"__abs_retry", timeoutS*4, false) }()
		}
		r3 := Solve(script, workdir, o.Name+"__retry", timeoutS*4, false)
		if r3.Status == "unsat" || r3.Status == "sat" {
			r3.Solver += "(retry)"
			r = r3
		} else if abs4 != nil {
			if ra := <-abs4; ra.Status == "unsat" {
				ra.Solver += "(string-abstracted, retry)"
				r = ra
			}
		}
	}
	if candidate != nil && (r.Status == "unknown" || r.Status == "timeout") {
		r = *candidate
	}
	res := OblResult{Name: o.Name, Kind: o.Kind, Solver: r.Solver, Secs: r.Secs, Raw: r.Status, All: r.All, Pos: o.Pos, Src: o.Src, Note: o.Note, obl: o,
		SmtFile: filepath.Join(workdir, sanitize(o.Name)+".smt2")}
	want := "unsat"
	if o.ExpectSat {
		want = "sat"
	}
	if r.Status == want {
		res.Status = "discharged"
	} else if o.ExpectSat && r.Status != "unsat" && r.Status != "disagree" && r.Status != "error" {
		// vacuity guard: the preconditions must not be refutable; with quantified assumptions solvers often cannot
		// produce a model, so only a proof of unsatisfiability fails the guard
		res.Status = "discharged"
		res.Note = "vacuity guard: not refuted (" + r.Status + ")"
	} else {
		res.Status = "failed"
		res.Output = firstLines(r.Output, 40)
		if r.Status == "sat" {
			res.Model = r.Values
		}
	}
	return res
}

// ---------------------------------------------------------------- driver

type Evidence struct {
	PropertyID  string         `json:"property_id"`
	Tier        string         `json:"tier"`
	Seed        int            `json:"seed"`
	Level       string         `json:"level"`
	Coverage    map[string]any `json:"coverage"`
	Assumptions []string       `json:"assumptions"`
	WallS       float64        `json:"wall_s"`
	Violations  int            `json:"violations"`
}

func main() {
	if len(os.Args) < 2 {
		fmt.Fprintln(os.Stderr, "usage: govc check <property> [--tier quick|thorough] | govc dump <pkg> <func>")
		os.Exit(2)
	}
	os.Setenv("PATH", "/opt/veriftools/go1.26.8/bin:"+os.Getenv("PATH"))
	os.Setenv("GOTOOLCHAIN", "local")
	os.Setenv("GOFLAGS", "-mod=mod")
	os.Setenv("GOPROXY", "off")
	os.Setenv("GOSUMDB", "off")
	switch os.Args[1] {
	case "check":
		os.Exit(cmdCheck(os.Args[2:]))
	case "dump":
		cmdDump(os.Args[2:])
	default:
		fmt.Fprintln(os.Stderr, "unknown command")
		os.Exit(2)
	}
}

func cmdDump(args []string) {
	g := &Gen{repo: "/repo", verif: "/verif"}
	if err := g.load([]string{args[0]}); err != nil {
		fmt.Fprintln(os.Stderr, err)
		os.Exit(2)
	}
	for name, fn := range g.fnIndex {
		if strings.HasSuffix(name, args[1]) && strings.Contains(name, strings.TrimPrefix(args[0], "./")) {
			fn.WriteTo(os.Stdout)
		}
	}
}

func newGen(repo, verif string) *Gen {
	return &Gen{repo: repo, verif: verif, ti: newTypeInfo(), trusted: map[string]bool{}, pureUsed: map[string]bool{}, usedContracts: map[string]bool{},
		inlined: map[string]bool{}, inlineCache: map[*ssa.Function]bool{}, notLeaf: map[*ssa.Function]bool{}, sentinels: map[string]int{}, sliceDataOf: map[string]sliceDataInfo{},
		reachCache: map[string]string{}}
}

func hasProp(c *Contract, p string) bool {
	for _, x := range c.Props {
		if x == p {
			return true
		}
	}
	return false
}

func cmdCheck(args []string) int {
	fs := flag.NewFlagSet("check", flag.ExitOnError)
	tier := fs.String("tier", "quick", "quick|thorough")
	repo := fs.String("repo", "/repo", "repository under test")
	verif := fs.String("verif", "/verif", "verification directory")
	only := fs.String("only", "", "only functions whose key contains this")
	keep := fs.Bool("keep", false, "keep SMT files")
	verbose := fs.Bool("v", false, "verbose")
	noEvidence := fs.Bool("noevidence", false, "do not write evidence/replay files under /verif (self-test runs)")
	var prop string
	if len(args) > 0 && !strings.HasPrefix(args[0], "-") {
		prop = args[0]
		args = args[1:]
	}
	fs.Parse(args)
	if t := os.Getenv("VERIF_TIER"); t != "" && *tier == "" {
		*tier = t
	}
	seed := 0
	fmt.Sscanf(os.Getenv("VERIF_SEED"), "%d", &seed)
	start := time.Now()
	g := newGen(*repo, *verif)
	if err := g.loadContracts(); err != nil {
		fmt.Fprintln(os.Stderr, "contract error:", err)
		return 2
	}
	var sel []*Contract
	pkgSet := map[string]bool{}
	for _, c := range g.all {
		if (c.Kind == "func" || c.Kind == "lemma") && hasProp(c, prop) && !c.Trusted {
			if *only != "" && !strings.Contains(c.Pkg+"."+c.Key, *only) {
				continue
			}
			sel = append(sel, c)
			if c.Dir != "" {
				pkgSet["./"+filepath.ToSlash(c.Dir)] = true
			}
			// `option needs_pkg <dir>`: the instantiation of a generic function exists only where it is used
			for _, d := range strings.Fields(c.Options["needs_pkg"]) {
				pkgSet["./"+d] = true
			}
		}
	}
	if len(sel) == 0 {
		fmt.Fprintf(os.Stderr, "no contracts tagged with property %s\n", prop)
		return 2
	}
	var pats []string
	for p := range pkgSet {
		pats = append(pats, p)
	}
	sort.Strings(pats)
	if err := g.load(pats); err != nil {
		fmt.Fprintln(os.Stderr, "load error:", err)
		// a tree that does not build cannot be checked: report as engine error
		return 2
	}
	loadS := time.Since(start).Seconds()
	workdir, _ := os.MkdirTemp("", "govc-"+prop+"-")
	if !*keep {
		defer os.RemoveAll(workdir)
	}
	timeout := 10
	if *tier == "thorough" {
		timeout = 60 // every solver runs to its own verdict on every obligation (no race): a disagreement is an engine error
	}
	if t := os.Getenv("GOVC_TIMEOUT"); t != "" {
		fmt.Sscanf(t, "%d", &timeout)
	}
	var obls []*Obligation
	var genErrs []string
	fnInfo := []map[string]any{}
	notes := map[string]bool{}
	for _, c := range sel {
		var fg *FnGen
		var err error
		if c.Kind == "lemma" {
			fg, err = g.verifyLemma(c)
		} else {
			fg, err = g.verifyFunc(c)
		}
		if err != nil {
			genErrs = append(genErrs, err.Error())
			// an unbound contract is a failed obligation, not a pass
			obls = append(obls, &Obligation{Name: c.Key + "#bind", Fn: c.Key, Kind: "bind", Goal: False, Note: err.Error(), Props: c.Props, ct: c})
			continue
		}
		info := map[string]any{"function": fg.name, "obligations": len(fg.obls), "contract": fmt.Sprintf("%s:%d", c.File, c.Line)}
		if fg.fn != nil {
			n := 0
			for _, b := range fg.fn.Blocks {
				n += len(b.Instrs)
			}
			info["ssa_instructions"] = n
			info["source"] = g.prog.Fset.Position(fg.fn.Pos()).String()
		}
		var ns []string
		for n := range fg.notes {
			ns = append(ns, n)
			notes[n] = true
		}
		sort.Strings(ns)
		if len(ns) > 0 {
			info["abstractions"] = ns
		}
		fnInfo = append(fnInfo, info)
		for _, o := range fg.obls {
			// an obligation re-tagged to other properties (option monitor_props) is not part of this property's check
			if len(o.Props) > 0 && prop != "" {
				keep := false
				for _, p := range o.Props {
					if p == prop {
						keep = true
					}
				}
				if !keep {
					continue
				}
			}
			obls = append(obls, o)
		}
	}
	genS := time.Since(start).Seconds() - loadS
	// solve in parallel
	results := make([]OblResult, len(obls))
	var wg sync.WaitGroup
	sem := make(chan struct{}, 6)
	for i, o := range obls {
		wg.Add(1)
		go func(i int, o *Obligation) {
			defer wg.Done()
			sem <- struct{}{}
			defer func() { <-sem }()
			if o.Kind == "bind" && o.Goal == False && len(o.Assumes) == 0 {
				results[i] = OblResult{Name: o.Name, Kind: o.Kind, Status: "failed", Raw: "unbound", Note: o.Note, obl: o}
				return
			}
			results[i] = g.solveObligation(o, workdir, timeout, *tier == "thorough")
		}(i, o)
	}
	wg.Wait()
	// an obligation that no solver decided while the others were racing beside it gets one more attempt on an otherwise
	// idle machine with a long limit before it is reported as undischarged (a loaded machine must not become an alarm)
	retryStart := time.Now()
	for i, r := range results {
		undecided := r.Raw == "unknown" || r.Raw == "timeout" || strings.Contains(r.Solver, "candidate model")
		// the retries of one run share a budget: a tree with many undecided obligations (a broken one, typically) is
		// reported after at most a few minutes
		if time.Since(retryStart) > 150*time.Second {
			break
		}
		if r.Status == "failed" && undecided && obls[i].Kind != "bind" {
			lt := timeout * 3
			if lt < 30 {
				lt = 30
			}
			r2 := g.solveObligation(obls[i], workdir, lt, false)
			if r2.Status == "discharged" {
				r2.Solver += "(sequential retry)"
				results[i] = r2
			}
		}
	}
	// report
	// return sites that are unreachable on the unchanged tree (dead defensive code): /verif/expect/unreachable.json lists,
	// per function, how many the path guard may refute; one more than listed is a vacuous path and fails the guard
	allowedUnreach := map[string]int{}
	if b, err := os.ReadFile(filepath.Join(*verif, "expect", "unreachable.json")); err == nil {
		json.Unmarshal(b, &allowedUnreach)
	}
	unreach := map[string][]int{}
	for i, r := range results {
		if r.Status == "failed" && r.Raw == "unsat" && strings.Contains(r.Name, "#vacuity:path@") && r.obl != nil {
			unreach[r.obl.Fn] = append(unreach[r.obl.Fn], i)
		}
	}
	var unreachNotes []string
	for fn, idx := range unreach {
		if len(idx) <= allowedUnreach[fn] {
			for _, i := range idx {
				results[i].Status = "discharged"
				results[i].Note = "return site unreachable on the unchanged tree as well (expect/unreachable.json)"
				unreachNotes = append(unreachNotes, "return site proved unreachable and expected so (dead defensive code): "+results[i].Name+" at "+results[i].Pos)
			}
		}
	}
	sort.Strings(unreachNotes)
	discharged := 0
	solverWins := map[string]int{}
	solverTime := 0.0
	var failed []OblResult
	samples := []any{}
	for _, r := range results {
		solverTime += r.Secs
		if r.Status == "discharged" {
			discharged++
			solverWins[r.Solver]++
		} else {
			failed = append(failed, r)
		}
		if len(samples) < 12 || r.Status != "discharged" {
			samples = append(samples, map[string]any{"obligation": r.Name, "status": r.Status, "solver": r.Solver, "secs": round3(r.Secs), "clause": r.Src})
		}
		if *verbose {
			fmt.Printf("  %-10s %-8s %6.2fs %s %v\n", r.Status, r.Solver, r.Secs, r.Name, r.All)
		}
	}
	known := loadKnownFindings(filepath.Join(*verif, "known_findings.json"))
	violations := 0
	replayDir := filepath.Join(*verif, "replays", prop)
	if *noEvidence {
		replayDir = filepath.Join(workdir, "replays")
	}
	for _, f := range failed {
		if kf := known.match(prop, f); kf != nil {
			fmt.Printf("KNOWN-FINDING: property=%s %s\n", prop, kf.What)
			continue
		}
		violations++
		os.MkdirAll(replayDir, 0o755)
		rp := filepath.Join(replayDir, sanitize(f.Name)+".json")
		suffix := g.replay(&f, rp, *repo)
		fmt.Printf("VIOLATION property=%s replay=%s obligation=%s status=%s%s\n", prop, rp, f.Name, f.Raw, suffix)
	}
	// evidence
	trusted := []string{}
	if genErrs == nil {
		genErrs = []string{}
	}
	for t := range g.trusted {
		trusted = append(trusted, t)
	}
	for p := range g.pureUsed {
		trusted = append(trusted, "effects list (assumed to leave the modelled heap unchanged): "+p)
	}
	sort.Strings(trusted)
	var assumptions []string
	assumptions = append(assumptions, "go/packages + go/ssa (x/tools v0.50.0) lower the source faithfully; z3 4.8.12 / z3 5.1.0 / cvc5 1.0.x are sound; govc itself is correct")
	for n := range notes {
		assumptions = append(assumptions, "abstraction: "+n)
	}
	assumptions = append(assumptions, g.mirrorDiffs...)
	assumptions = append(assumptions, unreachNotes...)
	sort.Strings(assumptions[1:])
	inl := []string{}
	for f := range g.inlined {
		inl = append(inl, shortDesc(f))
	}
	sort.Strings(inl)
	ev := Evidence{PropertyID: prop, Tier: *tier, Seed: seed, Level: "proof", WallS: round3(time.Since(start).Seconds()), Violations: violations,
		Assumptions: assumptions,
		Coverage: map[string]any{
			// obligations that fail because of a listed known finding are reported separately (known_findings_reported):
			// they are neither proved nor counted as proof obligations of this run
			"obligations": len(obls) - (len(failed) - violations), "discharged": discharged,
			"checker_cmd":  fmt.Sprintf("bin/govc check %s --tier %s", prop, *tier),
			"trusted_base": trusted, "samples": samples, "functions_under_contract": fnInfo,
			"solver_wins": solverWins, "solver_time_s": round3(solverTime), "load_s": round3(loadS), "vcgen_s": round3(genS),
			"inlined_callees_verified_from_real_ssa": inl, "generator_errors": genErrs, "per_obligation_timeout_s": timeout,
			"known_findings_reported": len(failed) - violations,
		}}
	if !*noEvidence {
		os.MkdirAll(filepath.Join(*verif, "evidence"), 0o755)
		data, _ := json.MarshalIndent(ev, "", " ")
		os.WriteFile(filepath.Join(*verif, "evidence", prop+".json"), data, 0o644)
	}
	fmt.Printf("property %s: %d obligations, %d discharged, %d failed (%d known), %.1fs (load %.1fs)\n", prop, len(obls), discharged, len(failed), len(failed)-violations,
		time.Since(start).Seconds(), loadS)
	if violations > 0 {
		return 1
	}
	return 0
}

// goEnv: the repository needs go >= 1.25.7; the sandbox's newer toolchain is put first on PATH.
func goEnv() []string {
	var env []string
	for _, e := range os.Environ() {
		if strings.HasPrefix(e, "PATH=") || strings.HasPrefix(e, "GOFLAGS=") || strings.HasPrefix(e, "GOTOOLCHAIN=") ||
			strings.HasPrefix(e, "GOPROXY=") || strings.HasPrefix(e, "GOSUMDB=") {
			continue
		}
		env = append(env, e)
	}
	return append(env, "PATH=/opt/veriftools/go1.26.8/bin:"+os.Getenv("PATH"), "GOFLAGS=-mod=mod", "GOPROXY=off", "GOSUMDB=off", "GOTOOLCHAIN=local")
}

func round3(f float64) float64 { return float64(int(f*1000)) / 1000 }
