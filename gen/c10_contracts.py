#!/usr/bin/env python3
# Generates the C10 bypass contracts for the nine reader methods of the three cache layers (same shape, different names).
H="openfgav1.ConsistencyPreference_HIGHER_CONSISTENCY"
def reader(recv, method, store, filt, opts, ftype, otype, inner, before):
    return f"""//@ func (*{recv}).{method}(c, ctx, {store}, {filt}, {opts}) (res, err)
//@   property C10
//@   option nosafety
//@   requires c != nil && c.{inner[0]} != nil
//@   ensures @higherBypass {opts}.Consistency.Preference == {H} ==> innerCalled && res == innerIt && err == innerErr && innerStore == {store} && innerFilter == {filt} && innerOpts == {opts}
//@   monitor noCacheOnHigher
//@     ghost innerCalled = false
//@     ghost innerIt iface = nil
//@     ghost innerErr error = nil
//@     ghost innerStore string = ""
//@     ghost innerFilter S_storage.{ftype} = {filt}
//@     ghost innerOpts S_storage.{otype} = {opts}
//@     after call storage.RelationshipTupleReader.{method} args _, _, a_store, a_filter, a_opts returning it, e : innerCalled = true ; innerIt = it ; innerErr = e ; innerStore = a_store ; innerFilter = a_filter ; innerOpts = a_opts
//@     before call {before} : assert {opts}.Consistency.Preference != {H}
"""
T={"Read":("ReadFilter","ReadOptions"),"ReadUsersetTuples":("ReadUsersetTuplesFilter","ReadUsersetTuplesOptions"),"ReadStartingWithUser":("ReadStartingWithUserFilter","ReadStartingWithUserOptions")}
def storagewrappers():
    out=[]
    for m,(f,o) in T.items():
        out.append(reader("CachedDatastore",m,"store","filter","options",f,o,("RelationshipTupleReader",),
          "(*storagewrappers.CachedDatastore).newCachedIterator* | storagewrappers.findInCache | storagewrappers.isInvalidAt | storage.InMemoryCache.* | storage.Read*Key"))
    for m,(f,o) in T.items():
        filt = "filter"
        out.append(reader("CachedTupleReader",m,"storeID",filt,"opts",f,o,("delegate",),
          "(*storagewrappers.CachedTupleReader).tryGetFromCache | storagewrappers.newCachingIterator | storage.InMemoryCache.* | storage.Read*Key"))
    return "\n".join(out)
def shared():
    out=[]
    for m,(f,o) in T.items():
        out.append(reader("IteratorDatastore",m,"store","filter","options",f,o,("RelationshipTupleReader",),
          "(*sync.Map).* | sharediterator.newSharedIterator | storage.Read*Key | (*sharediterator.sharedIterator).*"))
    return "\n".join(out)
if __name__=="__main__":
    import sys
    print({"storagewrappers":storagewrappers,"shared":shared}[sys.argv[1]]())
