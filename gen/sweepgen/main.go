// sweepgen <dir>: prints thin safety-only contracts (option safety slice,index; no pre/postconditions) for every
// top-level function or method of the package in <dir> whose body contains an index or slice expression.
package main

import (
	"fmt"
	"go/ast"
	"go/parser"
	"go/token"
	"os"
	"sort"
	"strings"
)

func main() {
	dir := os.Args[1]
	prop := "SWEEP"
	if len(os.Args) > 2 {
		prop = os.Args[2]
	}
	fset := token.NewFileSet()
	pkgs, err := parser.ParseDir(fset, dir, func(fi os.FileInfo) bool {
		return !strings.HasSuffix(fi.Name(), "_test.go") && fi.Name() != "verif_contracts.go"
	}, 0)
	if err != nil {
		panic(err)
	}
	var out []string
	for _, p := range pkgs {
		for _, f := range p.Files {
			for _, d := range f.Decls {
				fd, ok := d.(*ast.FuncDecl)
				if !ok || fd.Body == nil {
					continue
				}
				if fd.Type.TypeParams != nil {
					continue
				}
				has := false
				ast.Inspect(fd.Body, func(n ast.Node) bool {
					switch n.(type) {
					case *ast.FuncLit:
						return false
					case *ast.IndexExpr, *ast.SliceExpr:
						has = true
					}
					return true
				})
				if !has {
					continue
				}
				name := fd.Name.Name
				var params []string
				if fd.Recv != nil && len(fd.Recv.List) == 1 {
					rt := fd.Recv.List[0].Type
					star := ""
					if s, ok := rt.(*ast.StarExpr); ok {
						star = "*"
						rt = s.X
					}
					id, ok := rt.(*ast.Ident)
					if !ok {
						continue // generic receiver
					}
					name = "(" + star + id.Name + ")." + name
					params = append(params, "recv")
				}
				k := 0
				for _, fl := range fd.Type.Params.List {
					n := len(fl.Names)
					if n == 0 {
						n = 1
					}
					for i := 0; i < n; i++ {
						params = append(params, fmt.Sprintf("a%d", k))
						k++
					}
				}
				var res []string
				if fd.Type.Results != nil {
					k = 0
					for _, fl := range fd.Type.Results.List {
						n := len(fl.Names)
						if n == 0 {
							n = 1
						}
						for i := 0; i < n; i++ {
							res = append(res, fmt.Sprintf("r%d", k))
							k++
						}
					}
				}
				sig := name + "(" + strings.Join(params, ", ") + ")"
				if len(res) > 0 {
					sig += " (" + strings.Join(res, ", ") + ")"
				}
				out = append(out, fmt.Sprintf("//@ func %s\n//@   property %s\n//@   option nosafety\n//@   option safety slice,index\n", sig, prop))
			}
		}
	}
	sort.Strings(out)
	for _, o := range out {
		fmt.Println(o)
	}
}
