module sweepgen
go 1.23
